"""Random but VALID instances of the declarative XML types (shared by c05_impl / c12_impl; not a translator).

Every value is set through the real descriptor (`setattr` -> `__set__` -> converter.check_valid).  Scalars are
restricted to values whose textual form is exact today (C18 owns converter exactness): timestamps and
durations are multiples of 1/8 s, decimals have no exponent and no trailing zero."""
from __future__ import annotations

import datetime
import enum
from decimal import Decimal

from lxml import etree

import xs_lib as X
import xs_xsd as D
from sdc11073.xml_types import dataconverters as dc
from sdc11073.xml_types import isoduration, mex_types, pm_types
from sdc11073.xml_types import xml_structure as xs

LETTERS = 'abcXYZ019_-.'
EXOTIC = ['\u00e4', '\u00df', '\u20ac', '\u6f22', '<', '&', '"', "'", '>', ' ', '  ', '\t', '\n', ';', ':', '/', '%', '#', '\U0001f600']
NS_POOL = [X.NSMAP['dom'], X.NSMAP['msg'], X.NSMAP['sdc'], X.NSMAP['mdpws'], X.NSMAP['dpws'], X.NSMAP['wsd']]


_INDEX = None


def get_index():
    global _INDEX
    if _INDEX is None:
        _INDEX = D.Index()
    return _INDEX


class Skip(Exception):
    """this property kind cannot be populated by the generator (counted by the caller)"""


class Gen:
    def __init__(self, rng, max_depth=3, exotic=0.35, p_optional=0.6, p_subst=0.3, max_list=3):
        self.rng = rng
        self.max_depth = max_depth
        self.exotic = exotic
        self.p_optional = p_optional
        self.p_subst = p_subst
        self.max_list = max_list
        self.stats = {}
        self.full_nested = 0          # C05: nested instances down to this depth also get every member set
        self.nonempty_lists = False   # C05: lists get at least one element where the schema allows one
        self._subs = {}
        self.idx = get_index()

    def count(self, key, n=1):
        self.stats[key] = self.stats.get(key, 0) + n

    # ------------------------------------------------------------------ scalars
    def word(self, lo=1, hi=8):
        r = self.rng
        n = r.randint(lo, hi)
        out = []
        for _ in range(n):
            if r.random() < self.exotic * 0.4:
                out.append(r.choice([c for c in EXOTIC if not c.isspace()]))
            else:
                out.append(r.choice(LETTERS))
        return ''.join(out)

    def string(self, min_len=0):
        r = self.rng
        if min_len == 0 and r.random() < 0.08:
            return ''
        n = r.randint(max(min_len, 1), 12)
        out = []
        for _ in range(n):
            if r.random() < self.exotic:
                out.append(r.choice(EXOTIC))
            else:
                out.append(r.choice(LETTERS))
        s = ''.join(out)
        if s != '':
            self.count('str_nonascii', any(ord(c) > 127 for c in s))
        return s

    def uri(self):
        r = self.rng
        return r.choice(['urn:uuid:', 'http://host.example/', 'https://10.0.0.1:8080/a/', 'urn:oid:1.2.', 'sdc.mds.pkp:']) + \
            ''.join(r.choice('abcdef0123456789-') for _ in range(r.randint(1, 12)))

    def lang(self):
        return self.rng.choice(['en', 'en-US', 'de', 'de-DE', 'zh-Hans', 'x-klingon'])

    def integer(self, signed=False):
        r = self.rng
        v = r.choice([0, 1, 2, 7, 42, 1000, 65535, 2 ** 31 - 1, r.randint(0, 10 ** 6)])
        if signed and r.random() < 0.3:
            v = -v
        return v

    def decimal(self, lo=None, hi=None):
        r = self.rng
        if lo is not None:
            return r.choice([Decimal(0), Decimal(1), Decimal('0.5'), Decimal('0.25'), Decimal('0.999')])
        ip = r.choice([0, 1, 3, 12, 100, 98765, r.randint(0, 10 ** 5)])
        fd = r.choice(['', '', '5', '25', '125', '001', '0625', '3', '999'])
        s = f'{ip}.{fd}' if fd else f'{ip}'
        if r.random() < 0.3:
            s = '-' + s
        v = Decimal(s)
        return Decimal(0) if v == 0 else v

    def eighths(self):
        """seconds as a float that is an exact multiple of 1/8 (125 ms): exact through *1000 and /1000"""
        r = self.rng
        return r.choice([0, 1, 8, 12, 100, 12345, r.randint(0, 10 ** 7)]) / 8.0

    def qname(self):
        r = self.rng
        return etree.QName(r.choice(NS_POOL), 'N' + ''.join(r.choice('abcXYZ09_') for _ in range(r.randint(1, 6))))

    def date_of_birth(self):
        r = self.rng
        k = r.randrange(6)
        y = r.choice([1969, 2000, 2024, 1, 9999])
        tz = r.choice([None, None, datetime.timezone.utc, datetime.timezone(datetime.timedelta(hours=2)),
                       datetime.timezone(datetime.timedelta(hours=-5, minutes=-30))])
        if k == 0:
            return isoduration.XsdDateInformation(y, tz_info=tz)
        if k == 1:
            return isoduration.XsdDateInformation(y, r.randint(1, 12), tz_info=tz)
        if k == 2:
            return isoduration.XsdDateInformation(y, r.randint(1, 12), r.randint(1, 28), tz_info=tz)
        if k == 3:
            return isoduration.XsdDateInformation(y, r.randint(1, 12), r.randint(1, 28), r.randint(0, 23), r.randint(0, 59),
                                                  r.choice([0.0, 1.0, 30.5, 59.0, 7.25]), tz_info=tz)
        if k == 4:
            return isoduration.XsdDateInformation(y, r.randint(1, 12), r.randint(1, 28), end_of_day=True, tz_info=tz)
        return isoduration.XsdDateInformation(y, 2, 29 if y in (2000, 2024) else 28, tz_info=tz)

    def any_element(self, depth=0):
        r = self.rng
        el = etree.Element(etree.QName(X.VERIF_NS, 'E' + self.rng.choice('abc')), nsmap={'vx': X.VERIF_NS})
        for _ in range(r.randint(0, 2)):
            el.set('a' + r.choice('xyz'), self.string())
        if depth < 1 and r.random() < 0.4:
            for _ in range(r.randint(1, 2)):
                el.append(self.any_element(depth + 1))
        else:
            t = self.string()
            el.text = t if t.strip() else 't'
        return el

    def by_converter(self, conv, prop, name, simple=None):
        """a Python value of the type the descriptor's converter handles, inside the schema's value space `simple`"""
        if simple is not None and simple.base == 'union' and simple.members:
            simple = simple.members[0]
        if conv is dc.StringConverter or isinstance(conv, type) and issubclass(conv, dc.StringConverter):
            return self.string_for(prop, name, simple)
        if isinstance(conv, dc.EnumConverter):
            members = list(conv._klass)  # noqa: SLF001
            self.count('enum_members')
            return self.rng.choice(members)
        if conv is dc.TimestampConverter:
            return self.eighths()
        if conv is dc.DurationConverter:
            return self.eighths()
        if conv is dc.DecimalConverter:
            if isinstance(prop, xs.QualityIndicatorAttributeProperty) or (simple is not None and simple.max_incl == '1'):
                return self.decimal(0, 1)
            return self.decimal()
        if conv is dc.IntegerConverter or isinstance(conv, type) and issubclass(conv, dc.IntegerConverter):
            base = simple.base if simple is not None else 'unsignedInt'
            v = self.integer(base in ('int', 'long', 'integer', 'short'))
            if base == 'positiveInteger':
                v = max(v, 1)
            if base in ('unsignedShort', 'short'):
                v = v % 30000
            return v
        if conv is dc.BooleanConverter:
            return self.rng.random() < 0.5
        if isinstance(conv, dc.ClassCheckConverter):
            kl = conv._klass  # noqa: SLF001
            if etree.QName in kl:
                return self.qname()
            if str in kl:
                return self.string_for(prop, name, simple)
            if int in kl:
                return self.integer()
            for k in kl:
                if isinstance(k, type) and issubclass(k, enum.Enum):
                    return self.rng.choice(list(k))
        raise Skip(f'converter {type(conv).__name__ if not isinstance(conv, type) else conv.__name__}')

    def string_for(self, prop, name, simple=None):
        if simple is not None:
            if simple.enum:
                return self.rng.choice(simple.enum)
            b = simple.base
            if b == 'anyURI':
                return self.uri()
            if b == 'language':
                return self.lang()
            if b == 'dateTime':
                return self.date_time()
            if b in ('NCName', 'ID', 'Name', 'NMTOKEN', 'token'):
                return 'n' + ''.join(self.rng.choice('abcXYZ09_') for _ in range(self.rng.randint(1, 6)))
            if b in ('unsignedLong', 'unsignedInt', 'integer', 'int', 'long', 'nonNegativeInteger', 'positiveInteger'):
                return str(max(self.integer(), 1 if b == 'positiveInteger' else 0))
            if b == 'decimal':
                return str(self.decimal())
            if b == 'duration':
                return 'PT' + str(self.rng.randint(0, 500)) + 'S'
            if b == 'boolean':
                return self.rng.choice(['true', 'false'])
            if b in ('string', 'normalizedString'):
                return self.string(simple.min_length)
            if b == 'list':
                return ' '.join(self.string_for(prop, name, simple.item).replace(' ', '_') or 'x'
                                for _ in range(self.rng.randint(1, 3)))
            return self.string(max(simple.min_length, 1))
        if isinstance(prop, (xs.AnyURIAttributeProperty, xs.AnyUriTextElement)):
            return self.uri()
        if isinstance(prop, (xs.HandleAttributeProperty, xs.HandleRefAttributeProperty)):
            return self.string(1)
        if isinstance(prop, (xs.CodeIdentifierAttributeProperty, xs.SymbolicCodeNameAttributeProperty,
                             xs.LocalizedTextRefAttributeProperty)):
            return self.string(1)
        if name in ('Lang', 'lang'):
            return self.lang()
        if isinstance(prop, xs.NodeTextProperty) and getattr(prop, '_min_length', 0):
            return self.string(1)
        return self.string()

    def date_time(self):
        r = self.rng
        s = f'{r.choice([1970, 2001, 2024])}-{r.randint(1, 12):02d}-{r.randint(1, 28):02d}T{r.randint(0, 23):02d}:' \
            f'{r.randint(0, 59):02d}:{r.randint(0, 59):02d}'
        return s + r.choice(['', 'Z', '+02:00', '.5', '.125Z'])

    # ------------------------------------------------------------------ structured values
    def subclasses(self, vcls):
        if vcls not in self._subs:
            res = []
            for c in X._subclasses(vcls):  # noqa: SLF001
                nt = getattr(c, 'NODETYPE', None)
                if nt is None or nt == getattr(vcls, 'NODETYPE', None) or c.__name__.startswith('Abstract'):
                    continue
                if not c.__module__.startswith('sdc11073.'):
                    continue
                try:
                    X.class_props(c)
                except X.BrokenClass:
                    continue
                res.append(c)
            res.sort(key=X.class_key)
            self._subs[vcls] = res
        return self._subs[vcls]

    def pick_class(self, prop, vcls, child_ct=None):
        """the declared value class or (xsi:type) one of its concrete subclasses that the reader resolves back"""
        if vcls is pm_types.PropertyBasedPMType and isinstance(prop, xs.SubElementListProperty):
            return self.rng.choice(MEX_SECTIONS)       # mex Metadata sections are told apart by their Dialect
        subs = [c for c in self.subclasses(vcls) if resolves_back(prop, vcls, c)]
        if child_ct is not None and child_ct.name is not None:
            subs = [c for c in subs if self.derives(c.NODETYPE, child_ct.name)]
        abstract = vcls.__name__.startswith('Abstract') or (child_ct is not None and child_ct.abstract)
        if subs and (abstract or self.rng.random() < self.p_subst):
            self.count('xsi_type_substitutions')
            return self.rng.choice(subs)
        return vcls

    def particle(self, ct, prop):
        """(kind, info) of the schema particle a property maps to: ('a', (simple, required)) | ('e', Elem) | None"""
        if ct is None:
            return self.global_particle(prop)
        if isinstance(prop, xs._AttributeBase):  # noqa: SLF001
            n = prop._attribute_name  # noqa: SLF001
            n = n.text if isinstance(n, etree.QName) else n
            if n in ct.attrs:
                typ, req = ct.attrs[n]
                return 'a', (self.idx.simple(typ), req)
            return None
        qn = getattr(prop, '_sub_element_name', None)
        if qn is None:
            return ('t', self.idx.simple(ct.text)) if ct.text is not None else None
        for e in ct.elems:
            if e.qname == qn.text:
                return 'e', e
        return self.global_particle(prop)

    def global_particle(self, prop):
        """an element that is not a particle of the owner's schema type (xs:any, or no schema type known) but is
        declared globally: its declaration tells the type of the content (it does not make the member mandatory)"""
        qn = getattr(prop, '_sub_element_name', None)
        if qn is None or isinstance(prop, xs._AttributeBase):  # noqa: SLF001
            return None
        g = self.idx.elements.get((qn.namespace, qn.localname))
        if g is None:
            return None
        return 'e', D.Elem(g.qname, g.type, 0, -1)

    def derives(self, qn, base_key):
        """is the schema type named qn derived from (or equal to) base_key ?"""
        key = (qn.namespace, qn.localname)
        for _ in range(12):
            if key == base_key:
                return True
            ct = self.idx.ctype(key)
            if ct is None or ct.base is None:
                return False
            key = ct.base
        return False

    def ctype_of(self, cls):
        ct, how = self.idx.for_qname(getattr(cls, 'NODETYPE', None))
        return ct

    def instance(self, cls, depth=0, full=False, ct=None):
        """a populated instance of cls; ct = schema type it has to conform to (default: the one named by
        cls.NODETYPE); full=True sets every member (optional ones too)"""
        if ct is None:
            ct = self.ctype_of(cls)
        if 0 < depth <= self.full_nested:
            full = True
        self.count('with_schema_type' if ct is not None else 'without_schema_type')
        obj = X.construct(cls)
        choice_taken = False
        for name, prop in X.class_props(cls):
            if isinstance(prop, xs.CurrentTimestampAttributeProperty):
                continue
            part = self.particle(ct, prop)
            mandatory = not prop.is_optional
            lo, hi = 0, self.max_list
            if cls in MEX_SECTIONS and name == 'Location':     # wsx:MetadataSection is a CHOICE: embedded data | Location
                if cls is not mex_types.LocationMetadataSection:
                    continue
                mandatory = True
            if part is not None:
                if part[0] == 'a' and part[1][1]:
                    mandatory = True
                elif part[0] == 'e':
                    e = part[1]
                    if e.in_choice:
                        if choice_taken:
                            continue
                    if e.min >= 1:
                        mandatory = True
                        lo = e.min
                    if e.max != -1:
                        hi = min(hi, e.max)
            islist = isinstance(prop, (xs._ElementListProperty, xs._AttributeListBase))  # noqa: SLF001
            if not mandatory and not full:
                p = self.p_optional if depth < self.max_depth else 0.15
                if self.rng.random() > p:
                    self.count('optional_absent')
                    continue
                self.count('optional_present')
            try:
                v = self.value(cls, name, prop, depth, mandatory, part, lo, hi)
            except Skip as ex:
                self.count('skipped:' + str(ex)[:40])
                continue
            if part is not None and part[0] == 'e' and part[1].in_choice:
                choice_taken = True
            if islist:
                self.count(f'list_len_{min(len(v), 3)}')
            setattr(obj, name, v)
        return obj

    def value(self, owner, name, prop, depth, mandatory=True, part=None, lo=0, hi=None):
        r = self.rng
        hi = self.max_list if hi is None else hi
        deep = depth >= self.max_depth
        simple = None
        child_ct = None
        if part is not None:
            if part[0] in ('a', 't'):
                simple = part[1][0] if part[0] == 'a' else part[1]
            else:
                t = self.idx.elem_type(part[1])
                if isinstance(t, D.CType):
                    child_ct = t
                    if t.text is not None:
                        simple = self.idx.simple(t.text)
                else:
                    simple = t

        def count(default_hi):
            h = min(hi, default_hi)
            lo2 = min(max(lo, 0), h) if h >= lo else lo
            if self.nonempty_lists and h >= 1:
                lo2 = max(lo2, 1)
            return r.randint(lo2, max(h, lo2))

        item = simple.item if simple is not None and simple.base == 'list' else simple
        if name == 'Dialect' and owner in MEX_SECTIONS:
            raise Skip('mex Dialect keeps its default (it selects the section class)')
        hook = HOOKS.get((owner.__name__, name))
        if hook is not None:
            return hook(self)
        if isinstance(prop, xs._AttributeListBase):  # noqa: SLF001
            n = r.randint(1 if (part is not None and part[0] == 'a' and part[1][1]) else 0, self.max_list)
            ec = prop._converter._element_converter  # noqa: SLF001
            if ec is dc.DecimalConverter:
                return [self.decimal() for _ in range(n)]
            return [self.word() for _ in range(n)]
        if isinstance(prop, xs.QNameAttributeProperty):
            return self.qname()
        if isinstance(prop, xs._AttributeBase):  # noqa: SLF001
            return self.by_converter(prop._converter, prop, name, simple)  # noqa: SLF001
        if isinstance(prop, xs.ExtensionNodeProperty):
            return xs.ExtensionLocalValue([self.any_element() for _ in range(r.randint(0 if not mandatory else 1, 2))])
        if isinstance(prop, xs.AnyEtreeNodeListProperty):
            return [self.any_element() for _ in range(r.randint(0, 2))]
        if isinstance(prop, xs.AnyEtreeNodeProperty):
            return [self.any_element() for _ in range(r.randint(1, 2))]
        if isinstance(prop, xs.DateOfBirthProperty):
            return self.date_of_birth()
        if isinstance(prop, xs.NodeTextQNameProperty):
            return self.qname()
        if isinstance(prop, xs.NodeTextQNameListProperty):
            return [self.qname() for _ in range(r.randint(0, self.max_list))]
        if isinstance(prop, xs.NodeTextListProperty):
            if item is not None and item.base == 'anyURI':
                return [self.uri() for _ in range(r.randint(0, self.max_list))]
            return [self.word() for _ in range(r.randint(0, self.max_list))]
        if isinstance(prop, xs.SubElementTextListProperty):
            n = count(self.max_list)
            ec = prop._converter._element_converter  # noqa: SLF001
            return [self.by_converter(ec, prop, name, simple) if not isinstance(prop, xs.SubElementHandleRefListProperty)
                    else self.string(1) for _ in range(n)]
        if isinstance(prop, xs.NodeTextProperty):
            return self.by_converter(prop._converter, prop, name, simple)  # noqa: SLF001
        if isinstance(prop, (xs.SubElementListProperty, xs.ContainerListProperty)):
            n = lo if deep else count(self.max_list)
            return [self.sub_instance(prop, depth, child_ct) for _ in range(n)]
        if isinstance(prop, xs.SubElementWithSubElementListProperty):
            return self.instance(prop.value_class, depth + 1, ct=child_ct)
        if isinstance(prop, (xs.SubElementProperty, xs.ContainerProperty)):
            return self.sub_instance(prop, depth, child_ct)
        raise Skip(f'property class {type(prop).__name__}')

    def sub_instance(self, prop, depth, child_ct):
        c = self.pick_class(prop, prop.value_class, child_ct)
        own = self.ctype_of(c) if c is not prop.value_class or child_ct is None else None
        return self.instance(c, depth + 1, ct=own or child_ct)


MEX_SECTIONS = [mex_types.ThisModelMetadataSection, mex_types.ThisDeviceMetadataSection,
                mex_types.RelationshipMetadataSection, mex_types.LocationMetadataSection]


def _mdib_element(g):
    el = etree.Element(etree.QName(X.NSMAP['msg'], 'Mdib'), nsmap={'msg': X.NSMAP['msg']})
    el.set('SequenceId', g.uri())
    if g.rng.random() < 0.5:
        el.set('MdibVersion', str(g.integer()))
    return [el]


HOOKS = {('GetMdibResponse', 'Mdib'): _mdib_element}
SIGNED_INTS = ()   # attribute names typed xsd:int / xsd:long (none of today's declarations needs negative values)


def resolves_back(prop, vcls, sub) -> bool:
    """would the reader instantiate `sub` again when it meets xsi:type = sub.NODETYPE ?"""
    try:
        if isinstance(prop, (xs.ContainerProperty, xs.ContainerListProperty)):
            return prop._cls_getter(sub.NODETYPE) is sub  # noqa: SLF001
        node = etree.Element('x', nsmap={'p': sub.NODETYPE.namespace})
        from sdc11073.namespaces import QN_TYPE
        node.set(QN_TYPE, f'p:{sub.NODETYPE.localname}')
        return vcls.value_class_from_node(node) is sub
    except Exception:  # noqa: BLE001
        return False
