"""Translator: emits coq/XmlStruct/Gen_Schema.v -- for every subclass of XMLTypeBase / ContainerBase the ordered
list of its property declarations (kind, slot name, converter class, optional, has default, default is mutable,
value class, min_length) and, where the class maps to a type or global element of the bundled XSD files, the
element order of that schema type.  Fail-closed: an unknown property descriptor class or converter stops the
translation.  Classes whose _props cannot be resolved are emitted in `broken_classes`."""
import json
import sys

from lxml import etree

import xs_lib as X
from xs_lib import min_len_flag
import xs_xsd as D
from sdc11073.xml_types import dataconverters as dc
from sdc11073.xml_types import xml_structure as xs

json.load(sys.stdin)

KIND = {}
for _n in ('StringAttributeProperty AnyURIAttributeProperty CodeIdentifierAttributeProperty HandleAttributeProperty '
           'HandleRefAttributeProperty SymbolicCodeNameAttributeProperty ExtensionAttributeProperty '
           'LocalizedTextRefAttributeProperty TimeZoneAttributeProperty EnumAttributeProperty TimestampAttributeProperty '
           'DecimalAttributeProperty QualityIndicatorAttributeProperty DurationAttributeProperty IntegerAttributeProperty '
           'UnsignedIntAttributeProperty VersionCounterAttributeProperty ReferencedVersionAttributeProperty '
           'BooleanAttributeProperty QNameAttributeProperty').split():
    KIND[_n] = 'KAttr'
KIND['CurrentTimestampAttributeProperty'] = 'KCurTs'
for _n in ('HandleRefListAttributeProperty EntryRefListAttributeProperty OperationRefListAttributeProperty '
           'AlertConditionRefListAttributeProperty DecimalListAttributeProperty').split():
    KIND[_n] = 'KAttrList'
for _n in ('NodeTextProperty NodeStringProperty AnyUriTextElement NodeEnumTextProperty NodeEnumQNameProperty NodeIntProperty '
           'NodeDecimalProperty NodeDurationProperty NodeTextQNameProperty DateOfBirthProperty').split():
    KIND[_n] = 'KText'
KIND['NodeTextListProperty'] = 'KTextList'
KIND['NodeTextQNameListProperty'] = 'KQNameList'
KIND['QNameListType'] = 'KQNameList'
for _n in 'SubElementTextListProperty SubElementStringListProperty SubElementHandleRefListProperty'.split():
    KIND[_n] = 'KElemTextList'
KIND['SubElementProperty'] = 'KSub'
KIND['ContainerProperty'] = 'KSub'
KIND['SubElementListProperty'] = 'KSubList'
KIND['ContainerListProperty'] = 'KSubList'
KIND['SubElementWithSubElementListProperty'] = 'KSubNonEmpty'
KIND['ExtensionNodeProperty'] = 'KExt'
KIND['AnyEtreeNodeProperty'] = 'KAny'
KIND['AnyEtreeNodeListProperty'] = 'KAnyList'
# the behaviour each kind stands for is implemented by exactly these base classes; a subclass that overrides one of
# the three methods would silently change behaviour, so that is checked too
METHODS = ('update_xml_value', 'get_py_value_from_node', 'init_instance_data', 'update_from_node', '__get__', '__set__')


def conv_of(p):
    c = p._converter  # noqa: SLF001
    if isinstance(p, xs.DateOfBirthProperty):
        return 'CDob'
    if isinstance(p, (xs.NodeTextQNameProperty, xs.QNameAttributeProperty)):
        return 'CQName'
    if c is dc.StringConverter:
        return 'CStr'
    if isinstance(c, dc.EnumConverter):
        return 'CEnum'
    if c in (dc.IntegerConverter, dc.UnsignedIntConverter, dc.UnsignedLongConverter, dc.DecimalConverter,
             dc.DurationConverter, dc.TimestampConverter):
        return 'CNum'
    if c is dc.BooleanConverter or c is dc.NullConverter or isinstance(c, (dc.ListConverter, dc.ClassCheckConverter)):
        return 'COther'
    raise SystemExit(f'fail-closed: unknown converter {c!r} of {p}')


names = {}


def nid(s):
    if s not in names:
        names[s] = len(names) + 1       # 0 is the xsi:type attribute
    return names[s]


classes = X.all_classes()
cids = {X.class_key(c): i + 1 for i, c in enumerate(classes)}
idx = D.Index()
sites = {id(s[2]) for s in X.default_sites(classes)}
lines, broken, kinds_seen = [], [], {}
ndecl = 0
mapped = 0
impl_owner = {}
implied_mismatch, n_schema_implied = [], 0
ctype_of_class = {}
for cls in classes:
    key = X.class_key(cls)
    try:
        props = X.class_props(cls)
    except X.BrokenClass as ex:
        broken.append((cids[key], key, str(ex)))
        continue
    ps = []
    for pname, p in props:
        tn = type(p).__name__
        if tn not in KIND:
            raise SystemExit(f'fail-closed: unknown property class {tn} ({key}.{pname})')
        for m in METHODS:
            owner = next(k for k in type(p).__mro__ if m in k.__dict__).__name__
            if impl_owner.setdefault((tn, m), owner) != owner:
                raise SystemExit(f'fail-closed: {tn}.{m} resolved inconsistently')
        kinds_seen[tn] = kinds_seen.get(tn, 0) + 1
        ndecl += 1
        if isinstance(p, xs._AttributeBase):  # noqa: SLF001
            an = p._attribute_name  # noqa: SLF001
            slot = nid('@' + (an.text if isinstance(an, etree.QName) else an))
        else:
            qn = p._sub_element_name  # noqa: SLF001
            slot = None if qn is None else nid(qn.text if isinstance(qn, etree.QName) else str(qn))
        d = p._default_py_value  # noqa: SLF001
        vc = getattr(p, 'value_class', None)
        vid = cids.get(X.class_key(vc), 0) if isinstance(vc, type) and issubclass(vc, X.BASES) else 0
        b = lambda x: 'true' if x else 'false'  # noqa: E731
        ps.append(f'mkProp {KIND[tn]} {"None" if slot is None else f"(Some {slot})"} {conv_of(p)} {b(p.is_optional)} '
                  f'{b(d is not None)} {b(id(p) in sites)} {vid} {b(min_len_flag(p))}')
    ct, how = idx.for_qname(getattr(cls, 'NODETYPE', None))
    order = []
    if ct is not None:
        mapped += 1
        order = [nid(e.qname) for e in ct.elems]
        ctype_of_class[key] = ct
    lines.append(f'  (* {key} *) mkCls {cids[key]} [{"; ".join(ps)}] [{"; ".join(str(o) for o in order)}]')

# classes bound to an ANONYMOUS schema type (msg report parts, ...): the type of the particle they are the value of
for _round in range(3):
    for cls in classes:
        key = X.class_key(cls)
        ct = ctype_of_class.get(key)
        if ct is None:
            continue
        for pname, p in X.class_props(cls):
            vc, qn = getattr(p, 'value_class', None), getattr(p, '_sub_element_name', None)
            if not (isinstance(vc, type) and issubclass(vc, X.BASES)) or qn is None or X.class_key(vc) in ctype_of_class:
                continue
            e = next((e for e in ct.elems if e.qname == qn.text), None)
            t = idx.elem_type(e) if e is not None else None
            if isinstance(t, D.CType):
                try:
                    X.class_props(vc)
                except X.BrokenClass:
                    continue
                ctype_of_class[X.class_key(vc)] = t

# the value an ABSENT member stands for, as the schema documents it (default= / "The implied value SHALL be ..."),
# against the declaration: it must be an implied_py_value (not a default_py_value, not nothing) with that text
for cls in classes:
    key = X.class_key(cls)
    ct = ctype_of_class.get(key)
    if ct is None:
        continue
    props = X.class_props(cls)
    if True:
        for pname, p in props:
            if isinstance(p, xs._AttributeBase):  # noqa: SLF001
                an = p._attribute_name  # noqa: SLF001
                an = an.text if isinstance(an, etree.QName) else an
                doc, slot = ct.adefault.get(an), nid('@' + an)
            else:
                qn = p._sub_element_name  # noqa: SLF001
                if qn is None:
                    continue
                doc = next((e.implied for e in ct.elems if e.qname == qn.text), None)
                slot = nid(qn.text)
            im = p._implied_py_value  # noqa: SLF001
            if doc is None and im is None:
                continue
            n_schema_implied += 1
            try:
                declared = None if im is None else p._converter.to_xml(im)  # noqa: SLF001
            except Exception as ex:  # noqa: BLE001
                declared = f'<{type(ex).__name__}>'
            if declared != doc:
                dflt = p._default_py_value  # noqa: SLF001
                implied_mismatch.append((cids[key], slot, f'{key}.{pname}: schema documents {doc!r}, declaration has '
                                         f'implied_py_value={declared!r} default_py_value={dflt!r}'))

# which base class implements the behaviour of each descriptor class (recorded so that a moved override shows up)
impl_table = sorted({(tn, m, o) for (tn, m), o in impl_owner.items() if m in METHODS[:2]})
out = ['(* GENERATED on every run by harness/impl/gen_schema.py from the classes of src/sdc11073/xml_types/*.py and',
       '   src/sdc11073/mdib/*containers.py (introspection) and src/sdc11073/xsd/*.xsd.  Do not edit. *)',
       'From Coq Require Import List NArith.', 'From SDC Require Import XmlStruct.Model.', 'Import ListNotations.',
       'Open Scope N_scope.', '',
       '(* descriptor classes -> kinds: ' + ', '.join(f'{k}:{KIND[k]}x{v}' for k, v in sorted(kinds_seen.items())) + ' *)',
       '(* names: ' + ' '.join(f'{i}={s}' for s, i in names.items()) + ' *)', '',
       'Definition all_classes : list cls := [', ';\n'.join(lines), '].', '',
       '(* classes whose _props names a member that does not exist: cls() raises AttributeError *)',
       'Definition broken_classes : list N := [' + '; '.join(str(b[0]) for b in broken) + '].',
       *[f'(* broken: {b[1]}: {b[2]} *)' for b in broken], '',
       f'(* members for which the schema documents the value of an absent attribute / element (default= or "The implied',
       f'   value SHALL be ..."): {n_schema_implied}; (class, slot) where the declaration does not carry exactly that value as its',
       '   implied_py_value: *)',
       'Definition implied_mismatches : list (N * N) := [' + '; '.join(f'({m[0]}, {m[1]})' for m in implied_mismatch) + '].',
       *[f'(* mismatch: {m[2]} *)' for m in implied_mismatch], '']
print(json.dumps({'rel': 'XmlStruct/Gen_Schema.v', 'text': '\n'.join(out) + '\n',
                  'n_classes': len(classes), 'n_props': ndecl, 'n_descriptor_classes': len(kinds_seen),
                  'n_mapped_to_schema': mapped, 'broken': broken, 'n_schema_implied': n_schema_implied,
                  'implied_mismatch': [m[2] for m in implied_mismatch], 'class_ids': cids, 'names': names,
                  'impl_table': impl_table}))
