"""Translator: emits coq/XmlStruct/Gen_Schema.v -- for every subclass of XMLTypeBase / ContainerBase the ordered
list of its property declarations (kind, slot name, converter class, optional, has default, default is mutable,
value class, min_length) and, where the class maps to a type or global element of the bundled XSD files, the
element order of that schema type.  Fail-closed: an unknown property descriptor class or converter stops the
translation.  Classes whose _props cannot be resolved are emitted in `broken_classes`."""
import json
import sys

from lxml import etree

import xs_lib as X
from xs_lib import min_len_flag
import xs_xsd as D
from sdc11073.xml_types import dataconverters as dc
from sdc11073.xml_types import xml_structure as xs

json.load(sys.stdin)

KIND = {}
for _n in ('StringAttributeProperty AnyURIAttributeProperty CodeIdentifierAttributeProperty HandleAttributeProperty '
           'HandleRefAttributeProperty SymbolicCodeNameAttributeProperty ExtensionAttributeProperty '
           'LocalizedTextRefAttributeProperty TimeZoneAttributeProperty EnumAttributeProperty TimestampAttributeProperty '
           'DecimalAttributeProperty QualityIndicatorAttributeProperty DurationAttributeProperty IntegerAttributeProperty '
           'UnsignedIntAttributeProperty VersionCounterAttributeProperty ReferencedVersionAttributeProperty '
           'BooleanAttributeProperty QNameAttributeProperty').split():
    KIND[_n] = 'KAttr'
KIND['CurrentTimestampAttributeProperty'] = 'KCurTs'
for _n in ('HandleRefListAttributeProperty EntryRefListAttributeProperty OperationRefListAttributeProperty '
           'AlertConditionRefListAttributeProperty DecimalListAttributeProperty').split():
    KIND[_n] = 'KAttrList'
for _n in ('NodeTextProperty NodeStringProperty AnyUriTextElement NodeEnumTextProperty NodeEnumQNameProperty NodeIntProperty '
           'NodeDecimalProperty NodeDurationProperty NodeTextQNameProperty DateOfBirthProperty').split():
    KIND[_n] = 'KText'
KIND['NodeTextListProperty'] = 'KTextList'
KIND['NodeTextQNameListProperty'] = 'KQNameList'
KIND['QNameListType'] = 'KQNameList'
for _n in 'SubElementTextListProperty SubElementStringListProperty SubElementHandleRefListProperty'.split():
    KIND[_n] = 'KElemTextList'
KIND['SubElementProperty'] = 'KSub'
KIND['ContainerProperty'] = 'KSub'
KIND['SubElementListProperty'] = 'KSubList'
KIND['ContainerListProperty'] = 'KSubList'
KIND['SubElementWithSubElementListProperty'] = 'KSubNonEmpty'
KIND['ExtensionNodeProperty'] = 'KExt'
KIND['AnyEtreeNodeProperty'] = 'KAny'
KIND['AnyEtreeNodeListProperty'] = 'KAnyList'
# the behaviour each kind stands for is implemented by exactly these base classes; a subclass that overrides one of
# the three methods would silently change behaviour, so that is checked too
METHODS = ('update_xml_value', 'get_py_value_from_node', 'init_instance_data', 'update_from_node', '__get__', '__set__')


def conv_of(p):
    c = p._converter  # noqa: SLF001
    if isinstance(p, xs.DateOfBirthProperty):
        return 'CDob'
    if isinstance(p, (xs.NodeTextQNameProperty, xs.QNameAttributeProperty)):
        return 'CQName'
    if c is dc.StringConverter:
        return 'CStr'
    if isinstance(c, dc.EnumConverter):
        return 'CEnum'
    if c in (dc.IntegerConverter, dc.UnsignedIntConverter, dc.UnsignedLongConverter, dc.DecimalConverter,
             dc.DurationConverter, dc.TimestampConverter):
        return 'CNum'
    if c is dc.BooleanConverter or c is dc.NullConverter or isinstance(c, (dc.ListConverter, dc.ClassCheckConverter)):
        return 'COther'
    raise SystemExit(f'fail-closed: unknown converter {c!r} of {p}')


names = {}


def nid(s):
    if s not in names:
        names[s] = len(names) + 1       # 0 is the xsi:type attribute
    return names[s]


classes = X.all_classes()
cids = {X.class_key(c): i + 1 for i, c in enumerate(classes)}
idx = D.Index()
sites = {id(s[2]) for s in X.default_sites(classes)}
lines, broken, kinds_seen = [], [], {}
ndecl = 0
mapped = 0
impl_owner = {}
for cls in classes:
    key = X.class_key(cls)
    try:
        props = X.class_props(cls)
    except X.BrokenClass as ex:
        broken.append((cids[key], key, str(ex)))
        continue
    ps = []
    for pname, p in props:
        tn = type(p).__name__
        if tn not in KIND:
            raise SystemExit(f'fail-closed: unknown property class {tn} ({key}.{pname})')
        for m in METHODS:
            owner = next(k for k in type(p).__mro__ if m in k.__dict__).__name__
            if impl_owner.setdefault((tn, m), owner) != owner:
                raise SystemExit(f'fail-closed: {tn}.{m} resolved inconsistently')
        kinds_seen[tn] = kinds_seen.get(tn, 0) + 1
        ndecl += 1
        if isinstance(p, xs._AttributeBase):  # noqa: SLF001
            an = p._attribute_name  # noqa: SLF001
            slot = nid('@' + (an.text if isinstance(an, etree.QName) else an))
        else:
            qn = p._sub_element_name  # noqa: SLF001
            slot = None if qn is None else nid(qn.text if isinstance(qn, etree.QName) else str(qn))
        d = p._default_py_value  # noqa: SLF001
        vc = getattr(p, 'value_class', None)
        vid = cids.get(X.class_key(vc), 0) if isinstance(vc, type) and issubclass(vc, X.BASES) else 0
        b = lambda x: 'true' if x else 'false'  # noqa: E731
        ps.append(f'mkProp {KIND[tn]} {"None" if slot is None else f"(Some {slot})"} {conv_of(p)} {b(p.is_optional)} '
                  f'{b(d is not None)} {b(id(p) in sites)} {vid} {b(min_len_flag(p))}')
    ct, how = idx.for_qname(getattr(cls, 'NODETYPE', None))
    order = []
    if ct is not None:
        mapped += 1
        order = [nid(e.qname) for e in ct.elems]
    lines.append(f'  (* {key} *) mkCls {cids[key]} [{"; ".join(ps)}] [{"; ".join(str(o) for o in order)}]')

# which base class implements the behaviour of each descriptor class (recorded so that a moved override shows up)
impl_table = sorted({(tn, m, o) for (tn, m), o in impl_owner.items() if m in METHODS[:2]})
out = ['(* GENERATED on every run by harness/impl/gen_schema.py from the classes of src/sdc11073/xml_types/*.py and',
       '   src/sdc11073/mdib/*containers.py (introspection) and src/sdc11073/xsd/*.xsd.  Do not edit. *)',
       'From Coq Require Import List NArith.', 'From SDC Require Import XmlStruct.Model.', 'Import ListNotations.',
       'Open Scope N_scope.', '',
       '(* descriptor classes -> kinds: ' + ', '.join(f'{k}:{KIND[k]}x{v}' for k, v in sorted(kinds_seen.items())) + ' *)',
       '(* names: ' + ' '.join(f'{i}={s}' for s, i in names.items()) + ' *)', '',
       'Definition all_classes : list cls := [', ';\n'.join(lines), '].', '',
       '(* classes whose _props names a member that does not exist: cls() raises AttributeError *)',
       'Definition broken_classes : list N := [' + '; '.join(str(b[0]) for b in broken) + '].',
       *[f'(* broken: {b[1]}: {b[2]} *)' for b in broken], '']
print(json.dumps({'rel': 'XmlStruct/Gen_Schema.v', 'text': '\n'.join(out) + '\n',
                  'n_classes': len(classes), 'n_props': ndecl, 'n_descriptor_classes': len(kinds_seen),
                  'n_mapped_to_schema': mapped, 'broken': broken, 'class_ids': cids, 'names': names,
                  'impl_table': impl_table}))
