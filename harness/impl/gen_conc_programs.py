"""Translator: emits coq/Conc/Gen_Programs.v -- the lock-step programs of the Get handlers and of a transaction
commit, traced from the running code by harness/impl/c07_impl.py (fail-closed on unknown events)."""
import json
import os
import subprocess
import sys

json.load(sys.stdin)
here = os.path.dirname(os.path.abspath(__file__))
p = subprocess.run([sys.executable, '-B', os.path.join(here, 'c07_impl.py')], input=json.dumps({'programs_only': True}),
                   capture_output=True, text=True, timeout=300, env=os.environ)
if p.returncode != 0:
    raise SystemExit('fail-closed: tracing the handlers failed: ' + p.stderr[-800:])
out = json.loads(p.stdout.strip().splitlines()[-1])
KNOWN = {'AcqTr', 'RelTr', 'AcqMdib', 'RelMdib', 'Commit', 'Send', 'ReadVersion', 'ReadContent'}
lines = ['(* GENERATED on every run by harness/impl/gen_conc_programs.py: lock-step programs traced from the running',
         '   handlers (src/sdc11073/provider/porttypes/getserviceimpl.py, contextserviceimpl.py) and from a transaction',
         '   commit (src/sdc11073/mdib/providermdib.py _transaction_manager). *)',
         'From Coq Require Import List.', 'From SDC Require Import Conc.Model.', 'Import ListNotations.']
names = []
for name, v in out['programs'].items():
    prog = v['program']
    bad = [e for e in prog if e not in KNOWN]
    if bad:
        raise SystemExit(f'fail-closed: unknown event(s) {bad} in the trace of {name}')
    ident = 'prog_' + ''.join(c if c.isalnum() else '_' for c in name)
    lines.append(f'Definition {ident} : list act := [{"; ".join(prog)}].')
    if name != 'commit':
        names.append(ident)
if 'commit' not in out['programs'] or len(names) < 4:
    raise SystemExit('fail-closed: commit program or handler programs missing')
lines.append(f'Definition handler_programs : list (list act) := [{"; ".join(names)}].')
print(json.dumps({'rel': 'Conc/Gen_Programs.v', 'text': '\n'.join(lines) + '\n', 'programs': out['programs']}))
