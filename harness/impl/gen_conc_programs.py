"""Translator: emits coq/Conc/Gen_Programs.v -- the lock-step programs of the Get handlers and of a transaction
commit, traced from the running code by harness/impl/c07_impl.py (fail-closed on unknown events)."""
import json
import os
import subprocess
import sys

json.load(sys.stdin)
here = os.path.dirname(os.path.abspath(__file__))
# (the C04 tracer - see below - runs concurrently)
p4 = subprocess.Popen([sys.executable, '-B', os.path.join(here, 'c04_trace_impl.py')], stdin=subprocess.PIPE,
                      stdout=subprocess.PIPE, stderr=subprocess.PIPE, text=True, env=os.environ)
p4.stdin.write(json.dumps({}))
p4.stdin.close()
p = subprocess.run([sys.executable, '-B', os.path.join(here, 'c07_impl.py')], input=json.dumps({'programs_only': True}),
                   capture_output=True, text=True, timeout=300, env=os.environ)
if p.returncode != 0:
    raise SystemExit('fail-closed: tracing the handlers failed: ' + p.stderr[-800:])
out = json.loads(p.stdout.strip().splitlines()[-1])
KNOWN = {'AcqTr', 'RelTr', 'AcqMdib', 'RelMdib', 'Commit', 'Send', 'ReadVersion', 'ReadContent'}
lines = ['(* GENERATED on every run by harness/impl/gen_conc_programs.py: lock-step programs traced from the running',
         '   handlers (src/sdc11073/provider/porttypes/getserviceimpl.py, contextserviceimpl.py) and from a transaction',
         '   commit (src/sdc11073/mdib/providermdib.py _transaction_manager). *)',
         'From Coq Require Import List.', 'From SDC Require Import Conc.Model.', 'Import ListNotations.']
names = []
for name, v in out['programs'].items():
    prog = v['program']
    bad = [e for e in prog if e not in KNOWN]
    if bad:
        raise SystemExit(f'fail-closed: unknown event(s) {bad} in the trace of {name}')
    ident = 'prog_' + ''.join(c if c.isalnum() else '_' for c in name)
    lines.append(f'Definition {ident} : list act := [{"; ".join(prog)}].')
    if name != 'commit':
        names.append(ident)
if 'commit' not in out['programs'] or len(names) < 4:
    raise SystemExit('fail-closed: commit program or handler programs missing')
lines.append(f'Definition handler_programs : list (list act) := [{"; ".join(names)}].')
# ---- C04 (additive): the commit program of EVERY transaction kind and the periodic collector, traced by c04_trace_impl.py
try:
    p4_out, p4_err = p4.stdout.read(), p4.stderr.read()
    p4.wait(timeout=300)
except subprocess.TimeoutExpired:
    p4.kill()
    raise SystemExit('fail-closed: tracing the commits of every kind / the periodic collector timed out')
if p4.returncode != 0:
    raise SystemExit('fail-closed: tracing the commits of every kind / the periodic collector failed: ' + p4_err[-800:])
out4 = json.loads(p4_out.strip().splitlines()[-1])
if 'error' in out4:
    raise SystemExit('fail-closed: ' + out4['error'])
lines.append('(* commit programs of every transaction kind and one iteration of the periodic collector per period')
lines.append('   (PeriodicReportsHandler._periodic_reports_send_loop; ReadVersion = the read that labels the PeriodicStates),')
lines.append('   traced by harness/impl/c04_trace_impl.py *)')
commit_names, periodic_names = [], []
for name, prog in out4['programs'].items():
    bad = [e for e in prog if e not in KNOWN]
    if bad:
        raise SystemExit(f'fail-closed: unknown event(s) {bad} in the trace of {name}')
    ident = 'prog_' + ''.join(c if c.isalnum() else '_' for c in name)
    lines.append(f'Definition {ident} : list act := [{"; ".join(prog)}].')
    (commit_names if name.startswith('commit_') else periodic_names).append(ident)
    out['programs'][name] = {'program': prog, 'not_in_program': out4.get('not_in_program', {}).get(name)}
need = {'prog_commit_' + k for k in ('metric', 'alert', 'component', 'operational', 'context', 'rt_sample', 'descriptor')}
if not need <= set(commit_names) or not periodic_names:
    raise SystemExit(f'fail-closed: commit program of a transaction kind or the periodic collector missing ({commit_names}, {periodic_names})')
lines.append(f'Definition commit_programs : list (list act) := [{"; ".join(commit_names)}].')
lines.append(f'Definition periodic_programs : list (list act) := [{"; ".join(periodic_names)}].')
print(json.dumps({'rel': 'Conc/Gen_Programs.v', 'text': '\n'.join(lines) + '\n', 'programs': out['programs']}))
