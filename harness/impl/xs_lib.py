"""Shared helpers of the C05 / C12 implementation-side drivers (NOT a translator: the name must not start
with gen_): class inventory of the declarative XML types, construction of instances, value generators,
canonical value dump, object-graph abstraction (sharing graph).

Everything here drives the REAL classes of $VERIF_REPO/src/sdc11073; nothing is re-implemented."""
from __future__ import annotations

import copy
import enum
import inspect
import decimal
from decimal import Decimal

from lxml import etree

import sdc11073.definitions_sdc  # noqa: F401  (registers the protocol definitions)
from sdc11073.mdib import containerbase, descriptorcontainers, statecontainers
from sdc11073.namespaces import default_ns_helper
from sdc11073.xml_types import (addressing_types, basetypes, dataconverters as dc, dpws_types, eventing_types,
                                isoduration, mex_types, msg_types, pm_types, wsd_types)
from sdc11073.xml_types import xml_structure as xs

MODULES = [basetypes, pm_types, msg_types, eventing_types, wsd_types, addressing_types, dpws_types, mex_types,
           containerbase, descriptorcontainers, statecontainers]
BASES = (basetypes.XMLTypeBase, containerbase.ContainerBase)
VERIF_NS = 'urn:verif:ext'


class BrokenClass(Exception):
    pass


def _subclasses(c):
    out, seen, todo = [], set(), [c]
    while todo:
        x = todo.pop()
        for s in x.__subclasses__():
            if s not in seen:
                seen.add(s)
                out.append(s)
                todo.append(s)
    return out


NOT_STANDALONE = {
    'containerbase.ContainerBase': 'abstract root without from_node',
    'eventing_types.UnsubscribeResponse': 'as_etree_node returns None by design (empty soap body)',
}


def class_key(cls) -> str:
    return f'{cls.__module__.split(".")[-1]}.{cls.__qualname__}'


def all_classes():
    """every subclass of XMLTypeBase / ContainerBase defined inside sdc11073 (+ the two roots), sorted by key"""
    res = {}
    for b in BASES:
        for c in [b, *_subclasses(b)]:
            if c.__module__.startswith('sdc11073.'):
                res[class_key(c)] = c
    return [res[k] for k in sorted(res)]


def class_props(cls):
    """[(name, descriptor)] in serialisation order: the logic of sorted_container_properties, per class.
    Raises BrokenClass when a _props entry names no attribute (the real method raises AttributeError)."""
    ret = []
    for c in reversed(inspect.getmro(cls)):
        names = c.__dict__.get('_props')
        if names is None:
            continue
        for name in names:
            if not hasattr(c, name):
                raise BrokenClass(f'{class_key(cls)}: _props of {c.__name__} names {name!r} which is not an attribute')
            obj = getattr(c, name)
            if obj is not None:
                ret.append((name, obj))
    return ret


def is_container(cls) -> bool:
    return issubclass(cls, containerbase.ContainerBase)


def construct(cls):
    """cls(...) with None for every required constructor argument (what from_node of these classes does)"""
    sig = inspect.signature(cls.__init__)
    args = []
    for i, p in enumerate(sig.parameters.values()):
        if i == 0 or p.kind in (p.VAR_POSITIONAL, p.VAR_KEYWORD):
            continue
        if p.default is p.empty and p.kind in (p.POSITIONAL_ONLY, p.POSITIONAL_OR_KEYWORD):
            args.append(None)
    try:
        return cls(*args)
    except TypeError:
        return cls(*['' for _ in args])     # CodedValue / Translation insist on a str (their from_node passes '')


def parse(cls, node):
    """cls.from_node(node) with the optional extra arguments of containers left at their defaults"""
    if cls is mex_types.Metadata:       # its from_node takes the PARENT (soap body) of the wsx:Metadata element
        body = etree.Element('Body')
        body.append(node)
        return cls.from_node(body)
    return cls.from_node(node)


NS_HELPER = default_ns_helper
NSMAP = default_ns_helper.ns_map if hasattr(default_ns_helper, 'ns_map') else {}


def serialise(obj, tag=None):
    """the element the library produces for obj (mk_node for containers, as_etree_node for data types)"""
    if tag is None:
        tag = etree.QName(VERIF_NS, 'Root')
    if isinstance(obj, containerbase.ContainerBase):
        return obj.mk_node(tag, NS_HELPER)
    return obj.as_etree_node(tag, dict(NSMAP))


# --------------------------------------------------------------------------------------- object graph
MUTABLE_LEAF = (etree._Element,)  # noqa: SLF001


def is_struct(v) -> bool:
    return isinstance(v, BASES)


def is_mutable(v) -> bool:
    return is_struct(v) or isinstance(v, (list, dict, set, bytearray)) or isinstance(v, MUTABLE_LEAF)


def raw_fields(obj):
    """the values a struct stores for its declared properties (storage slots; no descriptor __get__, which
    may create lists as a side effect)"""
    return [obj.__dict__.get(p._local_var_name) for _, p in class_props(type(obj))]  # noqa: SLF001


class Interner:
    """immutable values -> small positive ints (None -> 0), stable within one process run"""

    def __init__(self):
        self.tab = {}

    def __call__(self, v) -> int:
        if v is None:
            return 0
        k = scalar_key(v)
        if k not in self.tab:
            self.tab[k] = len(self.tab) + 1
        return self.tab[k]


def scalar_key(v) -> str:
    if isinstance(v, etree.QName):
        return f'QName:{v.text}'
    if isinstance(v, enum.Enum):
        return f'{type(v).__name__}.{v.name}'
    if isinstance(v, float):
        return f'float:{v.hex()}'
    if isinstance(v, (bytes, str, int, bool, Decimal)):
        return f'{type(v).__name__}:{v!r}'
    if isinstance(v, tuple):
        return 'tuple:(' + ','.join(scalar_key(x) for x in v) + ')'
    return f'{type(v).__name__}:{v!r}'


def children(v, intern):
    """fields of a mutable object: list of ('imm', int) | ('ref', obj)"""
    if is_struct(v):
        vals = raw_fields(v)
    elif isinstance(v, (list, set)):
        vals = list(v)
    elif isinstance(v, dict):
        vals = [x for kv in v.items() for x in kv]
    elif isinstance(v, MUTABLE_LEAF):
        return [('imm', intern(canon_xml(v)))]
    else:
        vals = []
    return [('ref', x) if is_mutable(x) else ('imm', intern(x)) for x in vals]


def tree_of(v, intern):
    """value tree (sharing forgotten): int | list"""
    if not is_mutable(v):
        return intern(v)
    return [tree_of(x, intern) if k == 'ref' else x for k, x in children(v, intern)]


class Labeller:
    """canonical sharing graph in the token format of coq/Alias/Model.v [observe]"""

    def __init__(self, intern):
        self.intern = intern
        self.seen = {}
        self.keep = []       # keeps visited objects alive so that id() stays unique
        self.owner = {}      # id -> index of the root under which the object was first seen
        self.shared = set()  # pairs (first root, other root) that reach a common mutable object

    def label(self, v, root, out):
        if not is_mutable(v):
            out += [0, self.intern(v)]
            return
        i = self.seen.get(id(v))
        if i is not None:
            out += [2, i]
            if self.owner[id(v)] != root:
                self.shared.add((self.owner[id(v)], root))
            return
        self.seen[id(v)] = len(self.seen)
        self.keep.append(v)
        self.owner[id(v)] = root
        ch = children(v, self.intern)
        out += [1, self.seen[id(v)], len(ch)]
        for k, x in ch:
            if k == 'imm':
                out += [0, x]
            else:
                self.label(x, root, out)


def observe(defaults, instances, intern):
    """tokens + set of root pairs sharing a mutable object; roots: ('d', k) and ('i', r)"""
    lab = Labeller(intern)
    out = []
    for k, d in enumerate(defaults):
        lab.label(d, ('d', k), out)
    for r, inst in enumerate(instances):
        ch = children(inst, intern)
        out += [3, len(ch)]
        for kind, x in ch:
            if kind == 'imm':
                out += [0, x]
            else:
                lab.label(x, ('i', r), out)
    return out, sorted(lab.shared)


# --------------------------------------------------------------------------------------- defaults
def default_sites(classes=None):
    """every property declaration whose class-level default is a mutable object:
    [(class key of the declaring class, property name, descriptor, default object)], unique per descriptor"""
    seen, out = set(), []
    for cls in classes or all_classes():
        for c in inspect.getmro(cls):
            for name in c.__dict__.get('_props', ()):
                p = c.__dict__.get(name)
                if p is None or id(p) in seen or not hasattr(p, '_default_py_value'):
                    continue
                seen.add(id(p))
                d = p._default_py_value  # noqa: SLF001
                if d is not None and is_mutable(d):
                    out.append((class_key(c), name, p, d))
    out.sort(key=lambda t: (t[0], t[1]))
    return out


# --------------------------------------------------------------------------------------- canonical value dump
def canon(v, skip_current_ts=True):
    """canonical, comparable dump of a value (recursive over declared properties); the write-only
    current-timestamp attribute is excluded, lxml elements are dumped structurally"""
    if is_struct(v):
        items = []
        for name, p in class_props(type(v)):
            if skip_current_ts and isinstance(p, xs.CurrentTimestampAttributeProperty):
                continue
            raw = v.__dict__.get(p._local_var_name)  # noqa: SLF001
            if raw is None and isinstance(p, (xs.ExtensionNodeProperty, xs._AttributeListBase)):  # noqa: SLF001
                raw = []     # what the descriptor's __get__ shows for "never set"
            items.append((name, canon(raw, skip_current_ts)))
        return (class_key(type(v)), tuple(items))
    if isinstance(v, (list, tuple)):
        return ('list', tuple(canon(x, skip_current_ts) for x in v))
    if isinstance(v, etree._Element):  # noqa: SLF001
        return canon_xml(v)
    if isinstance(v, Decimal):
        return ('Decimal', str(v.normalize()) if v == v else 'NaN')
    if isinstance(v, float):
        return ('float', v.hex())
    if isinstance(v, isoduration.XsdDateInformation):
        return ('date', str(v))
    if isinstance(v, str):      # a str-valued Enum member equals the plain string (and is written as such)
        return 'str:' + repr(str(v.value) if isinstance(v, enum.Enum) else str(v))
    return scalar_key(v) if v is not None else None


def canon_xml(el):
    if not isinstance(el.tag, str):
        return ('comment',)
    kids = tuple(canon_xml(c) for c in el if isinstance(c.tag, str))
    return ('xml', el.tag, tuple(sorted(el.attrib.items())), (el.text or '') if not kids else '', kids)


def canon_diff(a, b, path=''):
    """path and values of the first difference between two canonical dumps"""
    if a == b:
        return None
    if isinstance(a, tuple) and isinstance(b, tuple) and len(a) == 2 and len(b) == 2 and a[0] == b[0] \
            and isinstance(a[1], tuple) and isinstance(b[1], tuple):
        if a[0] == 'list':
            if len(a[1]) != len(b[1]):
                return path + f'[len {len(a[1])} vs {len(b[1])}]', None, None
            for i, (x, y) in enumerate(zip(a[1], b[1])):
                d = canon_diff(x, y, f'{path}[{i}]')
                if d:
                    return d
        elif all(isinstance(x, tuple) and len(x) == 2 for x in a[1] + b[1]) and len(a[1]) == len(b[1]):
            for (n1, x), (n2, y) in zip(a[1], b[1]):
                d = canon_diff(x, y, f'{path}.{n1}')
                if d:
                    return d
    return path, a, b


def min_len_flag(p) -> bool:
    """model flag p_minlen: writing None for a mandatory member raises (NodeTextProperty with min_length; a named
    NodeTextQNameProperty raises whenever it is mandatory)"""
    if isinstance(p, xs.NodeTextQNameProperty):
        return p._sub_element_name is not None  # noqa: SLF001
    return bool(getattr(p, '_min_length', 0))
