"""Shared by the C04 implementation-side scripts (c04_order_impl, c04_periodic_impl, c04_trace_impl):

  Recorder   per-version record of what a commit changed, taken INSIDE the commit (a wrapper around
             process_transaction installed through the provider MDIB's transaction factory, i.e. while both MDIB
             locks are held), computed from the MDIB tables as they are right after the commit
  Sched      deterministic schedule injection: lock proxies on mdib_lock / _tr_lock (and other locks) report every
             point at which the watched thread takes a free lock or has just released one; a callback may run a second
             writer there.  A second writer that has to wait for a lock the watched thread holds is parked ("blocked
             on <lock>") and the watched thread goes on; when the watched thread releases that lock it waits until the
             second writer has finished or is parked on another lock - the schedule "a second writer was waiting
             for the locks and runs as soon as they are released", independent of thread timing
  Writers    one transaction of every kind (metric, alert, component, operational, context, rt_sample, descriptor)
  parse_any  a notification body -> canonical dict (episodic, waveform, description modification, periodic reports),
             parsed with the real (validating) message reader
"""
from __future__ import annotations

import copy
import threading

import mdibrun

KINDS = ('metric', 'alert', 'component', 'operational', 'context', 'rt_sample', 'descriptor')
PERIODIC = ('PeriodicMetricReport', 'PeriodicAlertReport', 'PeriodicComponentReport',
            'PeriodicOperationalStateReport', 'PeriodicContextReport')


# ----------------------------------------------------------------------------- what a commit changed
class Recorder:
    def __init__(self, pm, canon, track=None):
        self.pm = pm
        self.canon = canon
        self.commits = {}      # MdibVersion -> {'kind', 'thread', 'expect': {report kind: content}, 'tracked': ...}
        self.order = []        # versions in commit order
        self.track = track     # callable() -> {key: canonical state} of the states a periodic report may carry
        self.problems = []
        orig = pm._transaction_factory

        def factory(mdib, ttype, logger):
            t = orig(mdib, ttype, logger)
            real = t.process_transaction

            def process_transaction(*a, **k):
                v0 = int(pm.mdib_version)
                r = real(*a, **k)
                try:
                    self.record(ttype, v0, r)
                except Exception as ex:  # noqa: BLE001
                    self.problems.append(f'recorder: {ex!r}')
                return r
            t.process_transaction = process_transaction
            return t
        pm._transaction_factory = factory

    def _state_now(self, s):
        """the object the MDIB holds for this state right after the commit (the report must show ITS values)"""
        pm = self.pm
        if s.is_context_state:
            cur = pm.context_states.handle.get_one(s.Handle, allow_none=True)
        else:
            cur = pm.states.descriptor_handle.get_one(s.DescriptorHandle, allow_none=True)
        return cur if cur is not None else s

    def record(self, ttype, v0, r):
        pm, c = self.pm, self.canon
        nsh = pm.data_model.ns_helper
        v = int(pm.mdib_version)
        if v == v0:
            return
        exp = {}
        for name, lst in (('EpisodicMetricReport', r.metric_updates), ('EpisodicAlertReport', r.alert_updates),
                          ('EpisodicComponentReport', r.comp_updates), ('EpisodicContextReport', r.ctxt_updates),
                          ('EpisodicOperationalStateReport', r.op_updates), ('WaveformStream', r.rt_updates)):
            if lst:
                exp[name] = [c.any_state(self._state_now(s), nsh) for s in lst]
        if r.has_descriptor_updates:
            deleted = {d.Handle for d in r.descr_deleted}
            dm = {'Crt': [], 'Upt': [], 'Del': sorted(c.h(h) for h in deleted), 'states': []}
            for mod, lst in (('Crt', r.descr_created), ('Upt', r.descr_updated)):
                for d in lst:
                    cur = pm.descriptions.handle.get_one(d.Handle, allow_none=True)
                    dm[mod].append(c.descr(cur if cur is not None else d, nsh))
            for s in r.all_states():
                if s.DescriptorHandle not in deleted:
                    dm['states'].append(c.any_state(self._state_now(s), nsh))
            exp['DescriptionModificationReport'] = dm
        self.commits[v] = {'kind': ttype.name, 'thread': threading.current_thread().name, 'expect': exp,
                           'tracked': self.track() if self.track else None}
        self.order.append(v)


# ----------------------------------------------------------------------------- schedule injection
class Sched:
    def __init__(self):
        self.cv = threading.Condition()
        self.first = None         # ident of the watched thread (None: proxies are transparent)
        self.n = 0                # number of yield points of the watched thread so far
        self.points = []          # their names, e.g. 'pre-tr', 'post-mdib'
        self.on_yield = None      # callable(index, when, name)
        self.b = None             # the second writer: {'ident', 'done', 'blocked_on', 'thread'}
        self.errors = []
        self._busy = False

    def watch(self, ident, on_yield):
        self.first, self.on_yield, self.n, self.points, self.b, self._busy = ident, on_yield, 0, [], None, False

    def unwatch(self):
        self.first, self.on_yield = None, None

    def at(self, when, name):
        if self._busy:
            return
        idx = self.n
        self.n += 1
        self.points.append(f'{when}-{name}')
        if self.on_yield is not None:
            self._busy = True
            try:
                self.on_yield(idx, when, name)
            finally:
                self._busy = False

    # ---- a second writer that may have to wait for a lock of the watched thread
    def spawn(self, fn, name='B'):
        b = {'ident': None, 'done': False, 'blocked_on': None}

        def run():
            b['ident'] = threading.get_ident()
            try:
                fn()
            except Exception as ex:  # noqa: BLE001
                self.errors.append(f'second writer: {ex!r}'[:300])
            finally:
                with self.cv:
                    b['done'] = True
                    self.cv.notify_all()
        b['thread'] = threading.Thread(target=run, name=name)
        self.b = b
        b['thread'].start()
        self.wait_b(None)

    def wait_b(self, released):
        """the watched thread gives way: until the second writer is done or parked on a lock other than `released`"""
        b = self.b
        if b is None:
            return
        with self.cv:
            ok = self.cv.wait_for(lambda: b['done'] or b['blocked_on'] not in (None, released), timeout=30)
        if not ok:
            self.errors.append(f'schedule stuck: second writer neither finished nor parked (released={released})')

    def run_and_join(self, fn, name='W'):
        """a writer that must be able to run to completion here (the watched thread holds no lock it needs)"""
        err = []

        def run():
            try:
                fn()
            except Exception as ex:  # noqa: BLE001
                err.append(repr(ex)[:300])
        t = threading.Thread(target=run, name=name)
        t.start()
        t.join(30)
        if t.is_alive():
            self.errors.append('injected writer blocked: the watched thread holds a lock at a yield point')
        self.errors.extend('injected writer: ' + e for e in err)


class ProxyLock:
    """wraps threading.Lock / RLock; yield points of the watched thread: before it takes the lock at depth 0 and
    after it has released it to depth 0"""

    def __init__(self, real, name, sch: Sched):
        self._real = real
        self._name = name
        self._s = sch
        self._depth = {}

    def acquire(self, blocking=True, timeout=-1):
        s, me = self._s, threading.get_ident()
        d = self._depth.get(me, 0)
        if d == 0 and s.first == me:
            s.at('pre', self._name)
        b = s.b
        if blocking and timeout == -1 and b is not None and b['ident'] == me and not b['done']:
            if not self._real.acquire(False):
                with s.cv:
                    b['blocked_on'] = self._name
                    s.cv.notify_all()
                self._real.acquire()
                with s.cv:
                    b['blocked_on'] = None
                    s.cv.notify_all()
            ok = True
        else:
            ok = self._real.acquire(blocking, timeout)
        if ok:
            self._depth[me] = d + 1
        return ok

    def release(self):
        s, me = self._s, threading.get_ident()
        d = self._depth.get(me, 1) - 1
        self._depth[me] = d
        self._real.release()
        if d == 0 and s.first == me:
            s.at('post', self._name)

    def __enter__(self):
        return self.acquire()

    def __exit__(self, *a):
        self.release()

    def locked(self):
        return self._real.locked() if hasattr(self._real, 'locked') else False


def install_locks(pm, sch: Sched):
    pm.mdib_lock = ProxyLock(threading.RLock(), 'mdib', sch)
    pm._tr_lock = ProxyLock(threading.Lock(), 'tr', sch)


# ----------------------------------------------------------------------------- writers
class Writers:
    """one transaction of each kind; `slot` selects the handles (several writer threads use different and shared
    handles), `n` is the payload"""

    def __init__(self, pm, inv, nslots=4):
        self.pm = pm
        self.pmt = pm.data_model.pm_types
        self.nslots = nslots
        self.h = {k: list(inv[k]) for k in ('metric', 'alert', 'comp', 'op', 'rt')}
        types = inv['types']
        ctx = [h for h in inv['ctx'] if types[h] == 'PatientContextDescriptor'] or list(inv['ctx'])
        self.ctx_descr = ctx[0]
        self.max_ctx = None       # upper bound for the context states the 'context' writer creates (None: none)
        self.nctx = 0
        self.mutate_after = False

    def pick(self, kind, slot):
        lst = self.h[kind]
        return lst[slot % len(lst)]

    def setup(self):
        with self.pm.context_state_transaction() as tr:
            for slot in range(self.nslots):
                st = tr.mk_context_state(self.ctx_descr, f'vctx{slot}', set_associated=False)
                mdibrun.set_payload(st, slot, self.pmt)

    def tx(self, kind, slot, n):
        pm, sp = self.pm, mdibrun.set_payload
        kept = None
        if kind == 'metric':
            with pm.metric_state_transaction() as tr:
                kept = tr.get_state(self.pick('metric', slot))
                sp(kept, n, self.pmt)
                if n % 3 == 0:      # two states in one report
                    h2 = self.pick('metric', slot + 1)
                    if h2 != self.pick('metric', slot):
                        sp(tr.get_state(h2), n + 1, self.pmt)
        elif kind == 'alert':
            with pm.alert_state_transaction() as tr:
                kept = tr.get_state(self.pick('alert', slot))
                sp(kept, n, self.pmt)
        elif kind == 'component':
            with pm.component_state_transaction() as tr:
                kept = tr.get_state(self.pick('comp', slot))
                sp(kept, n, self.pmt)
        elif kind == 'operational':
            with pm.operational_state_transaction() as tr:
                kept = tr.get_state(self.pick('op', slot))
                sp(kept, n, self.pmt)
        elif kind == 'context':
            with pm.context_state_transaction() as tr:
                if n % 2 and (self.max_ctx is None or self.nctx < self.max_ctx):
                    self.nctx += 1
                    kept = tr.mk_context_state(self.ctx_descr, f'vctx{slot}n{n}', set_associated=False)
                else:
                    kept = tr.get_context_state(f'vctx{slot % self.nslots}')
                sp(kept, n, self.pmt)
        elif kind == 'rt_sample':
            with pm.rt_sample_state_transaction() as tr:
                sp(tr.get_state(self.pick('rt', slot)), n, self.pmt)
        elif kind == 'descriptor':
            gen = f'vgen{slot}'
            with pm.descriptor_transaction() as tr:
                if n % 2 == 0:
                    sp(tr.get_descriptor(self.pick('metric', slot + 2)), n, self.pmt)
                elif pm.descriptions.handle.get_one(gen, allow_none=True) is None:
                    tpl = pm.descriptions.handle.get_one(self.pick('metric', slot))
                    d = copy.deepcopy(tpl)
                    d.Handle = gen
                    d.DescriptorVersion = 0
                    d.set_source_mds(None)
                    st = pm.data_model.mk_state_container(d)
                    sp(st, n, self.pmt)
                    tr.add_descriptor(d, state_container=st)
                else:
                    tr.remove_descriptor(gen)
        else:
            raise ValueError(kind)
        if self.mutate_after and kept is not None:
            # the application keeps the object the transaction handed out and writes to it AFTER the commit: neither the
            # MDIB nor the copies retained for periodic reports may follow
            sp(kept, n + 7, self.pmt)


# ----------------------------------------------------------------------------- wire
def parse_any(body: bytes, msg_reader, data_model, canon) -> dict:
    rm = msg_reader.read_received_message(body)
    name = rm.q_name.localname if rm.q_name is not None else None
    if name not in PERIODIC:
        return mdibrun.parse_report(body, msg_reader, data_model, canon)
    nsh = data_model.ns_helper
    report = getattr(data_model.msg_types, name).from_node(rm.p_msg.msg_node)
    vg = rm.mdib_version_group
    return {'kind': name, 'ver': vg.mdib_version, 'seq': vg.sequence_id, 'inst': vg.instance_id,
            'parts': [{'mds': canon.h(getattr(part, 'SourceMds', None)),
                       'states': [canon.any_state(s, nsh) for s in part.values_list]} for part in report.ReportPart]}


def arrivals(w, cons, canon, start=0):
    """the notifications handed to one subscriber, in the order they were put on the wire"""
    netloc = cons._verif_server.netloc
    pm = w.provider.mdib
    out = []
    for ex in w.net.log[start:]:
        if ex.netloc != netloc or ex.method != 'POST':
            continue
        try:
            r = parse_any(ex.decoded_body(), cons.msg_reader, pm.data_model, canon)
        except Exception as e2:  # noqa: BLE001
            r = {'kind': 'UNPARSABLE', 'err': repr(e2)[:300]}
        if r is None or r.get('other'):
            continue
        r['status'] = ex.status
        r['n'] = ex.n
        out.append(r)
    return out


# ----------------------------------------------------------------------------- virtual clock for the periodic thread
PERIODIC_THREAD = 'DevPeriodicSendLoop'


class Gate:
    """the sleeps of the PeriodicReportsHandler thread: it parks here until the driver lets it go on; the virtual clock
    advances by exactly the requested time (used by c03_alias_impl; c04_periodic_impl has its own copy with hooks)"""

    def __init__(self):
        self.cv = threading.Condition()
        self.arrived = 0
        self.permits = 0
        self.now = 1000.0

    def sleep(self, dt):
        if threading.current_thread().name != PERIODIC_THREAD:
            return
        with self.cv:
            self.arrived += 1
            self.cv.notify_all()
            self.cv.wait_for(lambda: self.permits > 0)
            self.permits -= 1
        self.now += max(dt, 0.0)

    def run(self, k, timeout=120):
        with self.cv:
            target = self.arrived + k
            self.permits += k
            self.cv.notify_all()
            return self.cv.wait_for(lambda: self.arrived >= target, timeout=timeout)

    def wait_arrival(self, n=1, timeout=60):
        with self.cv:
            return self.cv.wait_for(lambda: self.arrived >= n, timeout=timeout)

    def install(self):
        import sys
        import time as _t
        from sdc11073 import intervaltimer
        from sdc11073.provider import periodicreports
        fake = type(sys)('time')
        fake.__dict__.update(_t.__dict__)
        fake.sleep = self.sleep
        periodicreports.time = fake
        intervaltimer.sleep = self.sleep
        intervaltimer.perf_counter = lambda: self.now
