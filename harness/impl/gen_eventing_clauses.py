"""Translator: emits coq/Eventing/Gen_Clauses.v from /repo (fail-closed).

Enumerates the `except` clauses of the code paths that hand a message to a subscriber, i.e. the places where the
implementation decides what a delivery failure of a given kind means:

  sync   BicepsSubscription.send_notification_report            (counts notify_errors)
         SubscriptionsManagerBase._send_notification_report     (decides whether the fan-out goes on)
         SubscriptionBase.send_notification_end_message
  async  BicepsSubscriptionAsync.async_send_notification_report (counts notify_errors)
         BICEPSSubscriptionsManagerBaseAsync._async_send_notification_report
         BicepsSubscriptionAsync.async_send_notification_end_message

For every handler of the try statement(s) that are direct children of the function body:
  (function, exception classes, `self.notify_errors += 1` present, `self._is_connection_error = True` present,
   bare `raise` present)
Props/C08.v pins the table (a new / removed / changed clause stops the proof) and proves on it that every clause of
the two counting functions counts.  The correspondence streams inject, for both managers, an outcome of every kind
that reaches a different clause (see harness/impl/c08_impl.py: FaultConnection / _FakePost).
"""
import ast
import inspect
import json
import sys
import textwrap

from sdc11073.provider import subscriptionmgr, subscriptionmgr_async, subscriptionmgr_base


def die(msg):
    raise SystemExit('fail-closed: ' + msg)


TARGETS = [
    (subscriptionmgr, 'BicepsSubscription', 'send_notification_report'),
    (subscriptionmgr_base, 'SubscriptionsManagerBase', '_send_notification_report'),
    (subscriptionmgr_base, 'SubscriptionBase', 'send_notification_end_message'),
    (subscriptionmgr_async, 'BicepsSubscriptionAsync', 'async_send_notification_report'),
    (subscriptionmgr_async, 'BICEPSSubscriptionsManagerBaseAsync', '_async_send_notification_report'),
    (subscriptionmgr_async, 'BicepsSubscriptionAsync', 'async_send_notification_end_message'),
]


def coq_str(s):
    if any(not (32 <= ord(c) < 127) or c == '"' for c in s):
        die(f'{s!r}: characters outside printable ASCII')
    return '"' + s + '"'


def own_nodes(body):
    """nodes of a handler body, not descending into nested function definitions"""
    for stmt in body:
        for node in ast.walk(stmt):
            yield node


def clause(fn_name, h):
    if h.type is None:
        exc = 'BaseException'
    elif isinstance(h.type, ast.Tuple):
        exc = ' | '.join(ast.unparse(e).rsplit('.', 1)[-1] for e in h.type.elts)
    else:
        exc = ast.unparse(h.type).rsplit('.', 1)[-1]
    counts = conn = reraise = False
    for node in own_nodes(h.body):
        if (isinstance(node, ast.AugAssign) and isinstance(node.target, ast.Attribute)
                and node.target.attr == 'notify_errors'):
            if not (isinstance(node.op, ast.Add) and isinstance(node.value, ast.Constant) and node.value.value == 1):
                die(f'{fn_name}: notify_errors is changed by something else than `+= 1`')
            counts = True
        if isinstance(node, ast.Assign) and any(isinstance(t, ast.Attribute) and t.attr == 'notify_errors'
                                                for t in node.targets):
            die(f'{fn_name}: notify_errors is assigned inside an except clause')
        if isinstance(node, ast.Assign) and any(isinstance(t, ast.Attribute) and t.attr == '_is_connection_error'
                                                for t in node.targets):
            conn = isinstance(node.value, ast.Constant) and node.value.value is True
        if isinstance(node, ast.Raise):
            if node.exc is not None:
                die(f'{fn_name}: an except clause raises a different exception')
            reraise = True
    return exc, counts, conn, reraise


json.load(sys.stdin)
rows = []
for mod, cls_name, fn_name in TARGETS:
    cls = getattr(mod, cls_name, None)
    fn = getattr(cls, fn_name, None) if cls is not None else None
    if fn is None:
        die(f'{mod.__name__}.{cls_name}.{fn_name} does not exist any more')
    tree = ast.parse(textwrap.dedent(inspect.getsource(fn)))
    fdef = tree.body[0]
    tries = [st for st in fdef.body if isinstance(st, ast.Try)]
    if len(tries) != 1:
        die(f'{cls_name}.{fn_name}: expected exactly one top-level try statement, found {len(tries)}')
    if not tries[0].handlers:
        die(f'{cls_name}.{fn_name}: the try statement has no except clause')
    for h in tries[0].handlers:
        exc, counts, conn, reraise = clause(f'{cls_name}.{fn_name}', h)
        rows.append((f'{cls_name}.{fn_name}', exc, counts, conn, reraise))


def b(x):
    return 'true' if x else 'false'


lines = ';\n  '.join(f'({coq_str(f)}, {coq_str(e)}, {b(c)}, {b(k)}, {b(r)})' for f, e, c, k, r in rows)
text = f'''(* GENERATED on every run by harness/impl/gen_eventing_clauses.py from
   src/sdc11073/provider/subscriptionmgr.py, subscriptionmgr_base.py, subscriptionmgr_async.py -- do not edit.
   The except clauses of the code paths that hand a message to a subscriber:
   (function, exception classes, counts a notify error, marks a connection error, re-raises). *)
From Coq Require Import List String Bool.
Import ListNotations.
Open Scope string_scope.
Definition send_path_clauses : list (string * string * bool * bool * bool) := [
  {lines}
].
'''
print(json.dumps({'rel': 'Eventing/Gen_Clauses.v', 'text': text,
                  'clauses': [list(r) for r in rows]}))
