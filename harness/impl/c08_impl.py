"""C08 implementation driver: runs op lists against a REAL SdcProvider (harness/world.py loop-back).

stdin : {"cases": [case, ...]}     (case format: see harness/props/c08.py gen_case)
stdout: {"traces": [[entry, ...], ...]}   one entry per model-level op (a 'descr' report yields two)

Subscribe / Renew / GetStatus / Unsubscribe are real SOAP requests through the real HTTP handler:
well-formed ones are issued by real consumer.subscription.ConsumerSubscription objects, the others are
hand-built with the real message factory.  Reports come from provider MDIB transactions (or, for odd
action strings, from a direct send_to_subscribers call).  Every message the provider hands to a
subscriber-facing SOAP client is recorded by TapClient.post_message_to (before the transport is
touched); delivery faults are injected with world.Net.hook.  time in subscriptionmgr_base and
consumer.subscription is a virtual clock.
"""
import asyncio
import decimal
import json
import re
import sys
import threading
import traceback
import uuid as _uuid
from types import SimpleNamespace
from urllib.parse import urlparse

from lxml import etree

import sdc11073.consumer.subscription as csub
import sdc11073.provider.providerimpl as pimpl
import sdc11073.provider.subscriptionmgr_base as smb


class FakeTime:
    OFFSET = 1.5e9       # time.time() = monotonic + OFFSET (both multiples of 1/8 s: exact in binary64)

    def __init__(self):
        self.now = 1000.0
        self.on_sleep = None

    def monotonic(self):
        return self.now

    def time(self):
        return self.now + self.OFFSET

    def perf_counter(self):
        return self.now

    def sleep(self, _d):
        name = threading.current_thread().name
        if name == 'housekeeping' or name.startswith('SubscriptionClient'):
            raise SystemExit            # background housekeeping / renew threads end silently; they are stepped explicitly
        if self.on_sleep:
            self.on_sleep()


FT = FakeTime()
smb.time = FT
csub.time = FT

import world  # noqa: E402

world.ConnectionRefused = ConnectionRefusedError      # what a real socket raises
from world import FakeHttpServer, LoopClient, World  # noqa: E402

from sdc11073.consumer.subscription import ConsumerSubscription  # noqa: E402
from sdc11073.namespaces import EventingActions  # noqa: E402
from sdc11073.provider import subscriptionmgr, subscriptionmgr_async  # noqa: E402
from sdc11073.pysoap.soapclient import HTTPReturnCodeError  # noqa: E402
from sdc11073.pysoap.soapclient_async import SoapClientAsync  # noqa: E402
from sdc11073.xml_types import eventing_types as evt  # noqa: E402
from sdc11073.xml_types import pm_types  # noqa: E402
from sdc11073.xml_types.actions import Actions  # noqa: E402
from sdc11073.xml_types.addressing_types import HeaderInformationBlock  # noqa: E402
from sdc11073.xml_types.dpws_types import DeviceEventingFilterDialectURI  # noqa: E402

ACTIONS = [a.value for a in Actions]
WSE = 'http://schemas.xmlsoap.org/ws/2004/08/eventing'
WSA = 'http://www.w3.org/2005/08/addressing'
S12 = 'http://www.w3.org/2003/05/soap-envelope'
KIND_ACTIONS = {
    'metric': [Actions.EpisodicMetricReport], 'alert': [Actions.EpisodicAlertReport],
    'component': [Actions.EpisodicComponentReport], 'operational': [Actions.EpisodicOperationalStateReport],
    'context': [Actions.EpisodicContextReport], 'waveform': [Actions.Waveform],
    'descr': [Actions.DescriptionModificationReport, Actions.EpisodicMetricReport],
}


FAULT_BODY = (b'<s12:Envelope xmlns:s12="http://www.w3.org/2003/05/soap-envelope" '
              b'xmlns:wsa="http://www.w3.org/2005/08/addressing"><s12:Header>'
              b'<wsa:Action>http://www.w3.org/2005/08/addressing/fault</wsa:Action></s12:Header><s12:Body><s12:Fault>'
              b'<s12:Code><s12:Value>s12:Receiver</s12:Value></s12:Code><s12:Reason>'
              b'<s12:Text xml:lang="en-US">subscriber is unhappy</s12:Text></s12:Reason></s12:Fault></s12:Body>'
              b'</s12:Envelope>')
GARBAGE_BODY = b'<html><body>502 bad gateway<br></body>'          # a 2xx answer that is not XML


def http_bytes(status, reason, body, ctype='application/soap+xml; charset=utf-8'):
    return (f'HTTP/1.1 {status} {reason}\r\nContent-Type: {ctype}\r\nContent-Length: {len(body)}\r\n\r\n'
            ).encode() + body


def kind_of(o):
    """injected delivery outcome -> its kind"""
    return o[0] if isinstance(o, list) else o


def legacy_verdict(o):
    """what world.FakeConnection.request understands (request-time faults on an established connection)"""
    k = kind_of(o)
    if k in ('ok', 'garbage'):
        return None
    if k in ('http', 'fault'):
        return ('status', o[1])
    if k in ('refuse', 'reset'):
        return 'refuse'              # OSError while sending
    if k in ('timeout', 'ctimeout'):
        return 'timeout'
    raise ValueError(o)


class FaultConnection(world.FakeConnection):
    """FakeConnection + faults at connect time + answers with a body"""

    def _outcome(self):
        return TapClient.outcome(self.netloc) if TapClient.outcome is not None else 'ok'

    def connect(self):
        k = kind_of(self._outcome())
        if k == 'refuse':
            raise ConnectionRefusedError(111, f'connection refused: {self.netloc}')     # what socket.connect raises
        if k == 'ctimeout':
            raise TimeoutError('timed out')                                              # socket.timeout
        super().connect()

    def request(self, method, url, body=None, headers=None):
        o = self._outcome()
        super().request(method, url, body=body, headers=headers)
        k = kind_of(o)
        if k == 'fault':
            self._resp.response = http_bytes(o[1], 'injected', FAULT_BODY)
        elif k == 'garbage':
            self._resp.response = http_bytes(200, 'OK', GARBAGE_BODY, 'text/html')


class TapClient(LoopClient):
    tap: list = []
    inject = None      # callable(rec): runs while the message is handed over and its exchange has not started yet
    outcome = None     # callable(netloc) -> injected delivery outcome for this destination
    raised: dict = {}  # histogram: exception class that the transport client raised per injected kind

    def _mk_http_connection(self):
        return FaultConnection(self.net, self._netloc, self.client_name, self._ssl_context)

    @staticmethod
    def handed(netloc, path, created_message):
        hib = created_message.p_msg.header_info_block
        rec = {'netloc': netloc, 'path': path, 'action': str(hib.Action), 'to': hib.To,
               'refp': [(r.tag, r.text) for r in (hib.reference_parameters or [])], 'ok': None,
               'injected': kind_of(TapClient.outcome(netloc)) if TapClient.outcome is not None else 'ok'}
        TapClient.tap.append(rec)
        if TapClient.inject is not None:
            TapClient.inject(rec)      # other threads' operations, while the manager is blocked in this delivery
        return rec

    @staticmethod
    def done(rec, exc):
        rec['ok'] = exc is None
        name = 'none' if exc is None else type(exc).__name__
        if exc is not None:
            rec['exc'] = name
        key = f'{rec["injected"]}->{name}'
        TapClient.raised[key] = TapClient.raised.get(key, 0) + 1

    def post_message_to(self, path, created_message, msg='', request_manipulator=None, validate=True):
        rec = self.handed(self._netloc, path, created_message)
        try:
            r = super().post_message_to(path, created_message, msg=msg, request_manipulator=request_manipulator,
                                        validate=validate)
        except BaseException as exc:
            self.done(rec, exc)
            raise
        self.done(rec, None)
        return r


class _FakeResponse:
    def __init__(self, status, reason, body):
        self.status, self.reason, self._body = status, reason, body

    async def text(self):
        return self._body.decode('utf-8')


class _FakePost:
    """what ClientSession.post(...) returns: an async context manager; the exchange happens on entering"""

    def __init__(self, session, path, data, headers):
        self.s, self.path, self.data, self.headers = session, path, data, headers

    async def __aenter__(self):
        import aiohttp
        from aiohttp.client_reqrep import ConnectionKey
        cl = self.s.client
        o = TapClient.outcome(cl.netloc) if TapClient.outcome is not None else 'ok'
        k = kind_of(o)
        host, _, port = cl.netloc.partition(':')
        if k == 'refuse':
            key = ConnectionKey(host, int(port), False, True, None, None, None)
            raise aiohttp.ClientConnectorError(key, ConnectionRefusedError(111, 'Connect call failed'))
        if k == 'ctimeout':
            raise aiohttp.ConnectionTimeoutError(f'Connection timeout to host http://{cl.netloc}{self.path}')
        if k == 'timeout':
            raise asyncio.TimeoutError          # ClientTimeout(total=socket_timeout) expired
        if k == 'reset':
            raise aiohttp.ServerDisconnectedError
        conn = world.FakeConnection(LoopClient.net, cl.netloc, f'async:{cl.netloc}')
        conn.connect()
        data = self.data if isinstance(self.data, (bytes, bytearray)) else b''.join(self.data)
        conn.request('POST', self.path, body=data, headers=self.headers)
        if k == 'fault':
            conn._resp.response = http_bytes(o[1], 'injected', FAULT_BODY)
        elif k == 'garbage':
            conn._resp.response = http_bytes(200, 'OK', GARBAGE_BODY, 'text/html')
        r = conn.getresponse()
        return _FakeResponse(r.status, r.reason, r.read())

    async def __aexit__(self, *a):
        return False


class _FakeSession:
    """stands in for aiohttp.ClientSession inside the REAL SoapClientAsync"""

    def __init__(self, client):
        self.client = client

    def post(self, path, data=None, headers=None):
        return _FakePost(self, path, data, headers)

    async def close(self):
        pass


class AsyncTapClient(SoapClientAsync):
    """the real SoapClientAsync; only the aiohttp session is replaced: the loop-back exchange is performed when
    the post context is entered, transport faults are raised as the aiohttp / asyncio exception classes"""

    async def _mk_http_connection(self):
        return _FakeSession(self)

    async def async_post_message_to(self, path, created_message, request_manipulator=None):
        rec = TapClient.handed(self._netloc, path, created_message)
        try:
            r = await super().async_post_message_to(path, created_message, request_manipulator=request_manipulator)
        except BaseException as exc:
            TapClient.done(rec, exc)
            raise
        TapClient.done(rec, None)
        return r


class Sink:
    """a subscriber endpoint: accepts every POST"""

    def get_instance(self, _path_element):
        return self

    def do_post(self, _headers, _path, _peer, _data):
        return 202, 'Accepted', b''


_orig_sync_factory = pimpl.provider_components_sync_factory
_orig_async_factory = pimpl.provider_components_async_factory

MGR = {('path', False): subscriptionmgr.PathDispatchingSubscriptionsManager,
       ('ref', False): subscriptionmgr.ReferenceParamSubscriptionsManager,
       ('path', True): subscriptionmgr_async.SubscriptionsManagerPathAsync,
       ('ref', True): subscriptionmgr_async.SubscriptionsManagerReferenceParamAsync}


def parse_duration_cs(txt):
    m = re.fullmatch(r'PT(?:(\d+)H)?(?:(\d+)M)?(?:(\d+)(?:\.(\d+))?S)?', txt or '')
    if not m or txt == 'PT':
        return ['bad', txt]
    h, mi, s, fr = m.groups()
    val = decimal.Decimal(int(h or 0) * 3600 + int(mi or 0) * 60 + int(s or 0)) + decimal.Decimal('0.' + (fr or '0'))
    cs = val * 100
    if cs == cs.to_integral_value():
        return int(cs)
    return ['frac', str(val)]


FILTER_PLACEHOLDER = 'urn:verif:filter-text-goes-here'
# XML white space (S ::= (#x20 | #x9 | #xD | #xA)+) between / around the action URIs of a Filter
WS = {'': '', 'sp': ' ', 'sp2': '  ', 'sp5': '     ', 'tab': '\t', 'lf': '\n', 'crlf': '\r\n', 'lf_indent': '\n        ',
      'mix': ' \t\r\n ', 'cr_ref': '&#13;&#10;', 'tab_ref': '&#9;'}


class Driver:
    def __init__(self, case):
        self.case = case
        self.unit = 8 if case.get('unit', 'tick') == 'tick' else 1000
        style, is_async = case['style'], bool(case.get('async'))
        cls = MGR[(style, is_async)]

        def sync_factory():
            c = _orig_sync_factory()
            c.subscriptions_manager_class = {'StateEvent': cls, 'Set': cls}
            return c

        def async_factory():
            c = _orig_async_factory()
            c.subscriptions_manager_class = {'StateEvent': cls, 'Set': cls}
            c.soap_client_class = AsyncTapClient
            return c

        pimpl.provider_components_sync_factory = sync_factory
        pimpl.provider_components_async_factory = async_factory
        if case.get('max_err') is not None:
            smb.SubscriptionBase.MAX_NOTIFY_ERRORS = case['max_err']
        FT.now = 1000.0
        TapClient.tap = []
        TapClient.inject = None
        maxd = case.get('maxd')
        self.w = World(max_subscription_duration=(0 if maxd is None else maxd / self.unit),   # 0 -> `or DEFAULT`
                       async_subscriptions=is_async)
        self.prov = self.w.provider
        if not is_async:
            self.prov._components.soap_client_class = TapClient     # world.py installs plain LoopClient
        self.mdib = self.prov.mdib
        self.mgr = self.prov._subscriptions_managers['StateEvent']
        assert type(self.mgr) is cls
        assert not self.mgr._housekeeping_thread.is_alive() or True
        self.pool = self.prov._soap_client_pool
        self.sinks = []
        for _ in range(case['nsinks']):
            srv = FakeHttpServer(self.w.net)
            srv.dispatcher = Sink()
            self.sinks.append(srv)
        self.sink_of = {s.netloc: i for i, s in enumerate(self.sinks)}
        self.pnetloc = self.w.provider_server.netloc
        self.svc_path = f'/{self.prov.path_prefix}/StateEvent'
        self.svc_addr = f'http://{self.pnetloc}{self.svc_path}'
        self.mf = self.prov.msg_factory
        self.req_client = LoopClient(self.pnetloc, 5, self.prov._logger, None, self.mdib.sdc_definitions,
                                     self.prov.msg_reader, supported_encodings=[])
        self.attempts = 0            # Subscribe attempts so far (index j in the NotifyTo path /n<j>)
        self.k_of_attempt = {}       # j -> canonical id k
        self.cons = []               # k -> ConsumerSubscription
        self.sends = []              # (tap index, action) of every send_to_subscribers call of the current op
        self.stopped = False
        self._orig_send = self.mgr.send_to_subscribers

        def tapped_send(payload, action, mvg):
            rec = [len(TapClient.tap), action, None, None, None]
            self.sends.append(rec)
            try:
                return self._orig_send(payload, action, mvg)
            finally:      # state right after this send (a transaction may send several reports)
                rec[2:] = [len(TapClient.tap), self.table_view(), self.pool_view()]

        self.mgr.send_to_subscribers = tapped_send
        self.fan = None              # bookkeeping of the fine-grained report in progress (op_freport)
        self.cur_outs = []
        _orig_get = getattr(self.mgr, '_get_subscriptions_for_action', None)

        def tapped_get(action):      # the receiver list of a fan-out, in the order of the delivery loop
            res = _orig_get(action)
            if (self.fan is not None and not self.fan['busy'] and self.fan['order'] is None
                    and isinstance(res, (list, tuple))):       # never consume a lazy result
                self.fan['order'] = [self.k_of_sub(s) for s in res]
            return res

        if _orig_get is not None:
            self.mgr._get_subscriptions_for_action = tapped_get

    # ------------------------------------------------------------------ helpers
    def sec(self, v):
        return v / self.unit

    def k_of_path(self, path):
        m = re.fullmatch(r'/([ne])(\d+)', path or '')
        if not m:
            return None, None
        return self.k_of_attempt.get(int(m.group(2))), m.group(1) == 'e'

    def act_tok(self, action):
        return ['a', ACTIONS.index(action)] if action in ACTIONS else ['s', action]

    def tok_str(self, tok):
        return ACTIONS[tok[1]] if tok[0] == 'a' else tok[1]

    def exchange(self, fn):
        """run fn (which posts one request to the provider); returns (wire response record, python result)"""
        n0 = len(self.w.net.log)
        res = None
        try:
            res = ['ret', fn()]
        except HTTPReturnCodeError as exc:
            res = ['http_error', exc.status]
        except Exception as exc:  # noqa: BLE001
            res = ['exc', type(exc).__name__, str(exc)[:200]]
        ex = [e for e in self.w.net.log[n0:] if e.netloc == self.pnetloc]
        if len(ex) != 1:
            return ['crash', f'{len(ex)} exchanges with the provider', res], res, None
        return self.parse_response(ex[0]), res, ex[0]

    def parse_response(self, ex):
        raw = ex.response
        head, _, body = raw.partition(b'\r\n\r\n')
        status = ex.status
        if status is None:
            m = re.match(rb'HTTP/1\.\d (\d+)', head)
            status = int(m.group(1)) if m else None
        if not body.strip():
            return ['empty', status]
        try:
            root = etree.fromstring(body)
        except etree.XMLSyntaxError:
            return ['unparsable', status]
        b = root.find(f'{{{S12}}}Body')
        fault = b.find(f'{{{S12}}}Fault') if b is not None else None
        if fault is not None:
            sub = fault.find(f'{{{S12}}}Code/{{{S12}}}Subcode/{{{S12}}}Value')
            return ['fault', status, sub.text if sub is not None else None]
        action = root.findtext(f'{{{S12}}}Header/{{{WSA}}}Action')
        payload = b[0] if b is not None and len(b) else None
        if action == EventingActions.SubscribeResponse:
            addr = payload.findtext(f'{{{WSE}}}SubscriptionManager/{{{WSA}}}Address')
            return ['sub', status, parse_duration_cs(payload.findtext(f'{{{WSE}}}Expires')), addr]
        if action == EventingActions.RenewResponse:
            return ['renew', status, parse_duration_cs(payload.findtext(f'{{{WSE}}}Expires'))]
        if action == EventingActions.GetStatusResponse:
            return ['stat', status, parse_duration_cs(payload.findtext(f'{{{WSE}}}Expires'))]
        if action == EventingActions.UnsubscribeResponse:
            return ['unsub', status]
        return ['other', status, action]

    def post(self, path, message, manip=None, validate=True):
        return self.req_client.post_message_to(path, message, request_manipulator=manip, validate=validate)

    # ------------------------------------------------------------------ observation
    def k_of_sub(self, s):
        return self.k_of_path(s.notify_to_url.path)[0]

    def table_view(self):
        out = []
        for s in list(self.mgr._subscriptions.objects):
            rs = s.remaining_seconds
            cs = round(rs * 100)
            if abs(rs * 100 - cs) > 1e-6:
                cs = ['frac', repr(rs)]
            out.append([self.k_of_sub(s), cs, s.notify_errors, s.unsubscribed_at is not None, bool(s.is_closed()),
                        bool(s.is_valid)])
        return sorted(out, key=lambda r: (r[0] is None, r[0]))

    def pool_view(self):
        out = []
        for srv in self.sinks:
            e = self.pool._soap_clients.get(srv.netloc)
            if e is None:
                out.append(None)
            else:
                cl = e.soap_client
                if isinstance(cl, SoapClientAsync):
                    state = 0            # no connection state that matters: every post stands for itself
                elif not cl.is_closed():
                    state = 1
                else:
                    state = 2 if cl._has_connection_error else 0
                out.append([sorted(self.k_of_sub(u) for u in e.usr_idents), state])
        return out

    def handed(self, recs):
        out = []
        for r in recs:
            k, is_e = self.k_of_path(r['path'])
            sink = self.sink_of.get(r['netloc'])
            if r['action'] == EventingActions.SubscriptionEnd:
                out.append({'m': ['end', k, sink, bool(is_e)], 'ok': r['ok'], 'to': r['to'], 'refp': r['refp'],
                            'exc': r.get('exc')})
            else:
                out.append({'m': ['notify', k, self.act_tok(r['action']), sink], 'ok': r['ok'], 'to': r['to'],
                            'refp': r['refp'], 'is_e': bool(is_e), 'exc': r.get('exc')})
        return sorted(out, key=lambda d: (d['m'][0], -1 if d['m'][1] is None else d['m'][1], json.dumps(d['m'])))

    def entry(self, resp, recs, **extra):
        d = {'resp': resp, 'handed': self.handed(recs), 'table': self.table_view(), 'pool': self.pool_view()}
        d.update(extra)
        return d

    def set_hook(self, outs):
        self.cur_outs = outs

        def outcome(netloc):
            i = self.sink_of.get(netloc)
            if i is None or i >= len(self.cur_outs):
                return 'ok'
            return self.cur_outs[i]

        def hook(ex):
            return legacy_verdict(outcome(ex.netloc))
        TapClient.outcome = outcome
        self.w.net.hook = hook

    def clear_hook(self):
        self.w.net.hook = None
        TapClient.outcome = None

    # ------------------------------------------------------------------ requests
    def mk_cons(self, filter_type, notify_url, end_url, cons_ref, j):
        hosted = SimpleNamespace(EndpointReference=[SimpleNamespace(Address=self.svc_addr)])
        cs = ConsumerSubscription(self.mf, self.mdib.sdc_definitions.data_model, lambda _addr: self.req_client,
                                  hosted, filter_type, notify_url, end_url, 'verif')
        if cons_ref:
            cs.notify_to_identifier = etree.Element(ConsumerSubscription.IDENT_TAG)
            cs.notify_to_identifier.text = f'urn:verif:n{j}'
            if end_url is not None:
                cs.end_to_identifier = etree.Element(ConsumerSubscription.IDENT_TAG)
                cs.end_to_identifier.text = f'urn:verif:e{j}'
        return cs

    def op_sub(self, q):
        j = self.attempts
        self.attempts += 1
        notify_url = f'http://{self.sinks[q["notify"]].netloc}/n{j}'
        end_url = None if q.get('end') is None else f'http://{self.sinks[q["end"]].netloc}/e{j}'
        ft = None
        if q['filter'] is not None:
            ft = evt.FilterType()
            toks = [self.tok_str(t) for t in q['filter']]
            ft.text = ' '.join(toks) if toks else '  '
            ws = q.get('ws')
            if ws and toks:
                # the white space between the action URIs as another stack may write it (pretty-printed filter);
                # put into the serialised request as raw bytes, the library's own formatting is not in the way
                raw_filter = WS[ws['lead']] + toks[0]
                for sep, tok in zip(ws['seps'], toks[1:]):
                    raw_filter += WS[sep] + tok
                raw_filter += WS[ws['trail']]
                ft.text = FILTER_PLACEHOLDER
            ft.Dialect = DeviceEventingFilterDialectURI.ACTION if q['dialect_ok'] else 'http://verif.example/other-dialect'
        expires = None if q['expires'] is None else self.sec(q['expires'])
        plain = q['schema_ok'] and q['dialect_ok'] and ft is not None and expires is not None
        raw_filter_bytes = None
        if ft is not None and ft.text == FILTER_PLACEHOLDER:
            plain = False
            if any(ch in tok for tok in toks for ch in '&<'):
                raise RuntimeError('harness: filter token needs XML escaping')
            raw_filter_bytes = raw_filter.encode('utf-8')        # contains character references (&#9; &#13;&#10;)
        cs = self.mk_cons(ft if ft is not None else SimpleNamespace(text=None), notify_url, end_url, q.get('cons_ref'), j)
        cons_info = None
        if plain:
            resp, res, ex = self.exchange(lambda: cs.subscribe(expires=expires))
            cons_info = {'is_subscribed': bool(cs.is_subscribed),
                         'granted': None if not cs.is_subscribed else cs.granted_expires}
        else:
            s = evt.Subscribe()
            if end_url is not None:
                s.init_end_to()
                s.EndTo.Address = end_url
            s.Delivery.Mode = f'{WSE}/DeliveryModes/Push'
            s.Delivery.NotifyTo.Address = notify_url
            s.Expires = expires
            s.Filter = ft
            msg = self.mf.mk_soap_message(HeaderInformationBlock(action=s.action, addr_to=self.svc_addr), s)

            class Manip:
                def manipulate_string(self_, xml):  # noqa: N805
                    if raw_filter_bytes is not None:
                        if xml.count(FILTER_PLACEHOLDER.encode()) != 1:
                            raise RuntimeError('harness: filter placeholder not found in the serialised Subscribe')
                        xml = xml.replace(FILTER_PLACEHOLDER.encode(), raw_filter_bytes)
                    if expires is None and (q['schema_ok'] or q.get('bad', 'delivery') == 'delivery'):
                        xml = xml.replace(b'<wse:Expires/>', b'')
                    if not q['schema_ok']:
                        bad = q.get('bad', 'delivery')
                        if bad == 'delivery':
                            xml = xml.replace(b'wse:Delivery', b'wse:Deliverx')
                        else:       # an Expires value outside the accepted duration language
                            txt = {'days': b'P1DT2S', 'negative': b'-PT5S', 'datetime': b'2031-01-01T00:00:00Z',
                                   'garbage': b'soon'}[bad]
                            xml = re.sub(rb'<wse:Expires>[^<]*</wse:Expires>|<wse:Expires/>',
                                         b'<wse:Expires>' + txt + b'</wse:Expires>', xml)
                            if b'<wse:Expires>' not in xml:
                                xml = xml.replace(b'</wse:Delivery>', b'</wse:Delivery><wse:Expires>' + txt + b'</wse:Expires>')
                    return xml
            resp, res, ex = self.exchange(lambda: self.post(self.svc_path, msg, manip=Manip(), validate=False))
            if resp[0] == 'sub':
                body = ex.response.partition(b'\r\n\r\n')[2]
                md = self.prov.msg_reader.read_received_message(body)
                cs.subscribe_response = evt.SubscribeResponse.from_node(md.p_msg.msg_node)
                cs._subscription_manager_path = urlparse(cs.subscribe_response.SubscriptionManager.Address).path
                cs.is_subscribed = True
        if resp[0] == 'sub':
            k = len(self.cons)
            self.k_of_attempt[j] = k
            self.cons.append(cs)
            resp = ['sub', resp[1], k, resp[2]]
        return self.entry(resp, [], cons=cons_info)

    def bogus_target(self, variant):
        """(path, reference parameters) naming no subscription of the StateEvent manager"""
        style = self.case['style']
        rnd = _uuid.UUID(int=0xabcdef0000 + self.attempts).hex

        def refp(text):
            e = etree.Element(smb.SubscriptionBase.IDENT_TAG)
            e.text = text
            return e
        last = self.cons[-1] if self.cons else None
        if variant in ('extra', 'other_service', 'upper') and last is None:
            variant = 'wrong'
        if variant == 'none':
            return self.svc_path, []
        if variant == 'wrong':
            return (f'{self.svc_path}/{rnd}', []) if style == 'path' else (self.svc_path, [refp(rnd)])
        good_path = last._subscription_manager_path
        good_ref = list(last.subscribe_response.SubscriptionManager.ReferenceParameters or [])
        if variant == 'extra':
            return (good_path, [refp(rnd)]) if style == 'path' else (f'{good_path}/{rnd}', good_ref)
        if variant == 'other_service':
            return good_path.replace('/StateEvent', '/Set'), good_ref
        if variant == 'upper':
            if style == 'path':
                head, _, tail = good_path.rpartition('/')
                return f'{head}/{tail.upper()}', []
            return good_path, [refp(good_ref[0].text.upper())]
        raise ValueError(variant)

    def op_request(self, kind, ident, expires=None, via_cons=True):
        cls = {'renew': evt.Renew, 'status': evt.GetStatus, 'unsub': evt.Unsubscribe}[kind]
        cs = None
        if ident[0] == 'id' and 0 <= ident[1] < len(self.cons):
            cs = self.cons[ident[1]]
            path = cs._subscription_manager_path
            refp = list(cs.subscribe_response.SubscriptionManager.ReferenceParameters or [])
        else:
            path, refp = self.bogus_target(ident[1] if ident[0] == 'bogus' else 'wrong')
        secs = None if expires is None else self.sec(expires)
        cons_info = None
        if cs is not None and via_cons and cs.is_subscribed and not (kind == 'renew' and secs is None):
            fn = {'renew': lambda: cs.renew(secs), 'status': cs.get_status, 'unsub': cs.unsubscribe}[kind]
            resp, res, _ex = self.exchange(fn)
            cons_info = {'ret': res[1] if res[0] == 'ret' else res, 'is_subscribed': bool(cs.is_subscribed)}
        else:
            p = cls()
            if kind == 'renew':
                p.Expires = secs
            msg = self.mf.mk_soap_message(
                HeaderInformationBlock(action=p.action, addr_to=f'http://{self.pnetloc}{path}',
                                       reference_parameters=refp), p)

            class Manip:
                def manipulate_string(self_, xml):  # noqa: N805
                    return xml.replace(b'<wse:Expires/>', b'') if kind == 'renew' and secs is None else xml
            resp, res, _ex = self.exchange(lambda: self.post(path, msg, manip=Manip(), validate=False))
        return self.entry(resp, [], cons=cons_info)

    # ------------------------------------------------------------------ reports
    def first_state(self, name):
        return next(x for x in self.mdib.states.objects if x.NODETYPE.localname == name)

    def tx(self, kind):
        mdib = self.mdib
        if kind == 'metric':
            st = self.first_state('NumericMetricState')
            with mdib.metric_state_transaction() as tr:
                x = tr.get_state(st.DescriptorHandle)
                if x.MetricValue is None:
                    x.mk_metric_value()
                x.MetricValue.Value = (x.MetricValue.Value or decimal.Decimal(0)) + 1
        elif kind == 'alert':
            st = self.first_state('AlertConditionState')
            with mdib.alert_state_transaction() as tr:
                x = tr.get_state(st.DescriptorHandle)
                x.Presence = not x.Presence
        elif kind == 'component':
            st = self.first_state('ChannelState')
            with mdib.component_state_transaction() as tr:
                x = tr.get_state(st.DescriptorHandle)
                x.OperatingHours = (x.OperatingHours or 0) + 1
        elif kind == 'operational':
            st = next(x for x in mdib.states.objects if x.NODETYPE.localname.endswith('OperationState'))
            with mdib.operational_state_transaction() as tr:
                x = tr.get_state(st.DescriptorHandle)
                dis = pm_types.OperatingMode.DISABLED
                x.OperatingMode = pm_types.OperatingMode.ENABLED if x.OperatingMode == dis else dis
        elif kind == 'context':
            d = next(x for x in mdib.descriptions.objects if x.NODETYPE.localname == 'LocationContextDescriptor')
            with mdib.context_state_transaction() as tr:
                tr.mk_context_state(d.Handle, set_associated=True)
        elif kind == 'descr':
            d = next(x for x in mdib.descriptions.objects if x.NODETYPE.localname == 'NumericMetricDescriptor')
            with mdib.descriptor_transaction() as tr:
                x = tr.get_descriptor(d.Handle)
                x.SafetyClassification = None if x.SafetyClassification else pm_types.SafetyClassification.INF
        elif kind == 'waveform':
            st = self.first_state('RealTimeSampleArrayMetricState')
            with mdib.rt_sample_state_transaction() as tr:
                x = tr.get_state(st.DescriptorHandle)
                if x.MetricValue is None:
                    x.mk_metric_value()
                x.MetricValue.Samples = [decimal.Decimal(1), decimal.Decimal(2)]
        else:
            raise ValueError(kind)

    def op_report(self, what, outs):
        self.set_hook(outs)
        self.sends = []
        t0 = len(TapClient.tap)
        crash = None
        try:
            if what[0] == 'kind':
                self.tx(what[1])
                expect = [a.value for a in KIND_ACTIONS[what[1]]]
            else:
                data_model = self.mdib.data_model
                report = data_model.msg_types.EpisodicMetricReport()
                report.set_mdib_version_group(self.mdib.mdib_version_group)
                self.mgr.send_to_subscribers(report, self.tok_str(what[1]), self.mdib.mdib_version_group)
                expect = [self.tok_str(what[1])]
        except Exception as exc:  # noqa: BLE001
            crash = f'{type(exc).__name__}: {exc}'[:300]
            expect = [a.value for a in KIND_ACTIONS[what[1]]] if what[0] == 'kind' else [self.tok_str(what[1])]
        finally:
            self.clear_hook()
        tap = TapClient.tap
        entries = []
        got = [r[1] for r in self.sends]
        for n, a in enumerate(expect):
            if crash is None and got == expect:
                b0, _, b1, tv, pv = self.sends[n]
                ent = self.entry(['none'], tap[b0:b1], action=self.act_tok(a))
                ent['table'], ent['pool'] = tv, pv
                entries.append(ent)
            else:
                entries.append(self.entry(['crash', crash or f'send_to_subscribers calls {got} != {expect}'],
                                          tap[t0:], action=self.act_tok(a)))
        return entries

    def direct_report(self, tok, send):
        report = self.mdib.data_model.msg_types.EpisodicMetricReport()
        report.set_mdib_version_group(self.mdib.mdib_version_group)
        send(report, self.tok_str(tok), self.mdib.mdib_version_group)

    def inner_op(self, op):
        """one operation of another thread, performed while a delivery of the fan-out is in progress"""
        t0 = len(TapClient.tap)
        try:
            if op[0] == 'sub':
                ent = self.op_sub(op[1])
            elif op[0] in ('renew', 'status', 'unsub'):
                ent = self.op_request(op[0], op[1], op[2] if op[0] == 'renew' else None,
                                      via_cons=op[-1] if isinstance(op[-1], bool) else True)
            elif op[0] == 'adv':
                FT.now += self.sec(op[1])
                ent = {'resp': ['none']}
            elif op[0] == 'hk':
                ent = self.op_hk()
            elif op[0] == 'report':            # another sender's report (atomic), own delivery outcomes
                saved = self.cur_outs
                self.cur_outs = op[2]
                try:
                    self.direct_report(op[1][1], self._orig_send)
                finally:
                    self.cur_outs = saved
                ent = {'resp': ['none'], 'action': op[1][1]}
            else:
                raise ValueError(op[0])
        except Exception:  # noqa: BLE001
            ent = {'resp': ['crash', traceback.format_exc()[-600:]]}
        return {'op': op, 'resp': ent['resp'], 'cons': ent.get('cons'), 'handed': self.handed(TapClient.tap[t0:])}

    def op_freport(self, what, outs, inject):
        """a report whose fan-out is interleaved with operations of other threads: inject = {n: [op, ...]} are
        performed (by a second thread, joined) from inside the delivery of the n-th hand-off of this report, i.e.
        after the manager handed the message to the subscriber's client and before the exchange happens.
        Operations that need the subscription table's lock while the manager holds it (async managers do, for the
        whole fan-out) wait: they are performed when the report is through."""
        self.set_hook(outs)
        self.sends = []
        t0 = len(TapClient.tap)
        lock = self.mgr._subscriptions.lock
        fan = self.fan = {'order': None, 'events': [], 'busy': False, 'waiting': [], 'blocked': False}

        def others(ops, ev):
            for op in ops:
                if op[0] != 'adv':
                    if lock.acquire(blocking=False):
                        lock.release()
                    else:
                        fan['waiting'].append(op)
                        ev['waiting'] += 1
                        continue
                ev['inner'].append(self.inner_op(op))

        def inj(rec):
            if fan['busy'] or rec['action'] == EventingActions.SubscriptionEnd:
                return          # a hand-off of a nested report
            n = len(fan['events'])
            ev = {'rec': rec, 'inner': [], 'waiting': 0}
            fan['events'].append(ev)
            ops = inject.get(str(n))
            if ops and not fan['blocked']:
                fan['busy'] = True
                thr = threading.Thread(target=others, args=(ops, ev), name='verif-other-threads', daemon=True)
                thr.start()
                thr.join(60)
                if thr.is_alive():
                    fan['blocked'] = True
                fan['busy'] = False

        crash = None
        TapClient.inject = inj
        try:
            if what[0] == 'kind':
                self.tx(what[1])
                expect = KIND_ACTIONS[what[1]][0].value
            else:
                self.direct_report(what[1], self.mgr.send_to_subscribers)
                expect = self.tok_str(what[1])
        except Exception as exc:  # noqa: BLE001
            crash = f'{type(exc).__name__}: {exc}'[:300]
            expect = KIND_ACTIONS[what[1]][0].value if what[0] == 'kind' else self.tok_str(what[1])
        finally:
            TapClient.inject = None
        self.fan = None
        if fan['blocked']:
            crash = 'operations of a second thread did not return within 60 s (dead-lock with the fan-out)'
        got = [r[1] for r in self.sends]
        if crash is None and got != [expect]:
            crash = f'send_to_subscribers calls {got} != {[expect]}'
        waited = [self.inner_op(op) for op in fan['waiting']] if not fan['blocked'] else []
        self.clear_hook()
        events = []
        for ev in fan['events']:
            h = self.handed([ev['rec']])[0]
            h['inner'] = ev['inner']
            h['waiting'] = ev['waiting']
            events.append(h)
        outer = [ev['rec'] for ev in fan['events']]
        ent = self.entry(['none'] if crash is None else ['crash', crash], outer, action=self.act_tok(expect),
                         fan={'order': fan['order'], 'events': events, 'waited': waited})
        if crash is not None:
            ent['handed'] = self.handed(TapClient.tap[t0:])
        return ent

    def op_ireport(self):
        """a report that cannot be sent to anybody: its body violates the schema (empty CodedValue/@Code), the
        message factory raises while the notification is serialised; the MDIB is not touched"""
        dm = self.mdib.data_model
        rep = dm.msg_types.EpisodicMetricReport()
        rep.set_mdib_version_group(self.mdib.mdib_version_group)
        st = self.first_state('NumericMetricState').mk_copy()
        st.BodySite.append(dm.pm_types.CodedValue(''))
        rep.add_report_part().MetricState.append(st)
        t0 = len(TapClient.tap)
        errs0 = {r[0]: r[2] for r in self.table_view()}
        resp = ['none']
        try:
            self._orig_send(rep, Actions.EpisodicMetricReport.value, self.mdib.mdib_version_group)
        except Exception as exc:  # noqa: BLE001
            resp = ['raised', type(exc).__name__]
        ent = self.entry(resp, TapClient.tap[t0:])
        ent['counted'] = sorted(k for k, _cs, er, *_ in self.table_view() if er != errs0.get(k, er))
        return ent

    def op_hk(self):
        def once():
            self.mgr._run_housekeeping_thread = False
        FT.on_sleep = once
        crash = None
        try:
            self.mgr._do_housekeeping()
        except Exception as exc:  # noqa: BLE001
            crash = f'{type(exc).__name__}: {exc}'[:300]
        finally:
            FT.on_sleep = None
        return self.entry(['none'] if crash is None else ['crash', crash], [])

    def op_stop(self, send_end, outs):
        self.set_hook(outs)
        t0 = len(TapClient.tap)
        crash = None
        try:
            self.prov.stop_all(send_subscription_end=send_end)
        except Exception as exc:  # noqa: BLE001
            crash = f'{type(exc).__name__}: {exc}'[:300]
        finally:
            self.clear_hook()
        self.stopped = True
        return self.entry(['none'] if crash is None else ['crash', crash], TapClient.tap[t0:])

    def run(self):
        out = []
        for op in self.case['ops']:
            t0 = len(TapClient.tap)
            try:
                if op[0] == 'sub':
                    out.append(self.op_sub(op[1]))
                elif op[0] in ('renew', 'status', 'unsub'):
                    out.append(self.op_request(op[0], op[1], op[2] if op[0] == 'renew' else None,
                                               via_cons=op[-1] if isinstance(op[-1], bool) else True))
                elif op[0] == 'adv':
                    FT.now += self.sec(op[1])
                    out.append(self.entry(['none'], []))
                elif op[0] == 'report':
                    out.extend(self.op_report(op[1], op[2]))
                elif op[0] == 'freport':
                    out.append(self.op_freport(op[1], op[2], op[3]))
                elif op[0] == 'hk':
                    out.append(self.op_hk())
                elif op[0] == 'ireport':
                    out.append(self.op_ireport())
                elif op[0] == 'stop':
                    out.append(self.op_stop(op[1], op[2]))
                else:
                    raise ValueError(op[0])
            except Exception:  # noqa: BLE001
                out.append({'resp': ['crash', traceback.format_exc()[-600:]], 'handed': [], 'table': [], 'pool': []})
            if op[0] not in ('report', 'freport', 'ireport', 'stop') and len(TapClient.tap) != t0:
                out[-1]['handed'] = self.handed(TapClient.tap[t0:])     # nothing may be sent by other ops
        return out

    def close(self):
        self.clear_hook()
        TapClient.inject = None
        if not self.stopped:
            try:
                self.prov.stop_all(send_subscription_end=False)
            except Exception:  # noqa: BLE001
                pass
        smb.SubscriptionBase.MAX_NOTIFY_ERRORS = DEFAULT_MAX_ERR
        pimpl.provider_components_sync_factory = _orig_sync_factory
        pimpl.provider_components_async_factory = _orig_async_factory


# ----------------------------------------------------------------------------- end-to-end scenarios (real SdcConsumer)
def run_e2e(case):
    """Real SdcConsumers (real ConsumerSubscriptionManager, path or reference-parameter identification) against
    the real provider: deliveries after unsubscribe / expiry / renew, SubscriptionEnd handling on shutdown."""
    import sdc11073.consumer.consumerimpl as cimpl
    style, is_async = case['style'], bool(case.get('async'))
    cls = MGR[(style, is_async)]

    def sync_factory():
        c = _orig_sync_factory()
        c.subscriptions_manager_class = {'StateEvent': cls, 'Set': cls}
        return c

    def async_factory():
        c = _orig_async_factory()
        c.subscriptions_manager_class = {'StateEvent': cls, 'Set': cls}
        c.soap_client_class = AsyncTapClient
        return c

    orig_cc = cimpl.default_components_factory

    def cons_factory():
        cc = orig_cc()
        if case.get('cons_ref'):
            cc.subscription_manager_class = csub.ClientSubscriptionManagerReferenceParams
        return cc

    pimpl.provider_components_sync_factory = sync_factory
    pimpl.provider_components_async_factory = async_factory
    cimpl.default_components_factory = cons_factory
    FT.now = 1000.0
    TapClient.tap = []
    w = None
    out = []
    try:
        w = World(max_subscription_duration=15, async_subscriptions=is_async)
        if not is_async:
            w.provider._components.soap_client_class = TapClient
        drv = Driver.__new__(Driver)
        drv.mdib = w.provider.mdib
        conss = [w.add_consumer() for _ in range(case['nconsumers'])]
        idx = {c._verif_server.netloc: i for i, c in enumerate(conss)}
        stopped = False

        def snapshot(step, t0):
            handed = []
            for r in TapClient.tap[t0:]:
                handed.append([idx.get(r['netloc']), 'end' if r['action'] == EventingActions.SubscriptionEnd else 'notify',
                               r['action'].rsplit('/', 1)[-1], bool(r['ok'])])
            out.append({'step': step, 'handed': sorted(handed, key=json.dumps),
                        'counters': [sum(s.event_counter for s in c.subscription_mgr.subscriptions.values())
                                     if c.subscription_mgr is not None else None for c in conss],
                        'nsubs': [len(c.subscription_mgr.subscriptions) for c in conss],
                        'subscribed': [[bool(s.is_subscribed) for s in c.subscription_mgr.subscriptions.values()] for c in conss],
                        'end_status': [[s.end_status for s in c.subscription_mgr.subscriptions.values()] for c in conss]})

        snapshot(['start'], len(TapClient.tap))
        for step in case['steps']:
            t0 = len(TapClient.tap)
            try:
                if step[0] == 'tx':
                    drv.tx(step[1])
                elif step[0] == 'adv':
                    FT.now += step[1] / 8
                elif step[0] == 'renew':
                    rets = [s.renew(60) for s in list(conss[step[1]].subscription_mgr.subscriptions.values())]
                    step = step + [rets]
                elif step[0] == 'status':
                    rets = [s.get_status() for s in list(conss[step[1]].subscription_mgr.subscriptions.values())]
                    step = step + [rets]
                elif step[0] == 'unsub':
                    subs = list(conss[step[1]].subscription_mgr.subscriptions.values())
                    ok = conss[step[1]].subscription_mgr.unsubscribe_all()
                    with conss[step[1]].subscription_mgr._subscriptions_lock:       # keep them visible for the snapshot
                        for s in subs:
                            conss[step[1]].subscription_mgr.subscriptions[s._filter_text] = s
                    step = step + [bool(ok)]
                elif step[0] == 'hk':
                    for m in w.provider._subscriptions_managers.values():
                        def once(m=m):
                            m._run_housekeeping_thread = False
                        FT.on_sleep = once
                        m._do_housekeeping()
                        FT.on_sleep = None
                elif step[0] == 'stop':
                    w.provider.stop_all(send_subscription_end=step[1])
                    stopped = True
                snapshot(step, t0)
            except Exception:  # noqa: BLE001
                out.append({'step': step, 'crash': traceback.format_exc()[-600:]})
                break
        for c in conss:
            try:
                c.stop_all(unsubscribe=False)
            except Exception:  # noqa: BLE001
                pass
        if not stopped:
            try:
                w.provider.stop_all(send_subscription_end=False)
            except Exception:  # noqa: BLE001
                pass
    except Exception:  # noqa: BLE001
        out.append({'step': ['setup'], 'crash': traceback.format_exc()[-800:]})
    finally:
        FT.on_sleep = None
        pimpl.provider_components_sync_factory = _orig_sync_factory
        pimpl.provider_components_async_factory = _orig_async_factory
        cimpl.default_components_factory = orig_cc
    return out


DEFAULT_MAX_ERR = smb.SubscriptionBase.MAX_NOTIFY_ERRORS


def main():
    payload = json.load(sys.stdin)
    traces = []
    for case in payload['cases']:
        d = None
        if case.get('e2e'):
            traces.append(run_e2e(case))
            continue
        try:
            d = Driver(case)
            traces.append(d.run())
        except Exception:  # noqa: BLE001
            traces.append([{'resp': ['crash', traceback.format_exc()[-800:]], 'handed': [], 'table': [], 'pool': []}])
        finally:
            if d is not None:
                d.close()
    print(json.dumps({'traces': traces, 'actions': ACTIONS, 'default_max_err': DEFAULT_MAX_ERR,
                      'raised': TapClient.raised}))


if __name__ == '__main__':
    main()
