"""C04 stream `order`: writer threads commit transactions of EVERY kind (metric, alert, component, operational,
context, rt_sample, descriptor) concurrently; two subscribers.

Phase 1 (deterministic schedules): for every pair (kind of writer A, kind of writer B) and every point at which A takes
a free MDIB lock or has just released one, B is started exactly there (lock proxies, c04_common.Sched); if B has to wait
for a lock A holds it runs as soon as A releases it, while A waits - so "B commits and sends between A's release and
A's (late) send" is exercised on purpose and not left to thread timing.
Phase 2: free-running threads.

Output: what every commit changed (recorded inside the commit, per MdibVersion) and what every subscriber was handed,
in arrival order, parsed with the real validating reader.  The oracle is in props/c04.py."""
import json
import sys
import threading

import mdibrun
mdibrun.preimport()
from world import World  # noqa: E402

import c04_common as cc  # noqa: E402

req = json.load(sys.stdin)
_stdout, sys.stdout = sys.stdout, sys.stderr
w = World(async_subscriptions=False)
cons1 = w.add_consumer()
cons2 = w.add_consumer()
pm = w.provider.mdib
pm.pre_commit_handler = None
pm.post_commit_handler = None
canon = mdibrun.Canon()
sch = cc.Sched()
cc.install_locks(pm, sch)
rec = cc.Recorder(pm, canon)
nthreads, ntx = req.get('threads', 4), req.get('tx', 14)
wr = cc.Writers(pm, req['inv'], nslots=max(nthreads, 4))
errors = []
counter = [0]


def next_n():
    counter[0] += 1
    return counter[0] * 2 + (counter[0] // 7) % 2     # both parities for every kind over time


wr.setup()
# ---------------------------------------------------------------- phase 1: deterministic schedules
schedules = []
kinds_a = req.get('kinds_a', list(cc.KINDS))
kinds_b = req.get('kinds_b', list(cc.KINDS))
for ia, ka in enumerate(kinds_a):
    for ib, kb in enumerate(kinds_b):
        target = 0
        while True:
            na, nb = next_n(), next_n()
            fired = []

            def on_yield(idx, when, name, target=target, kb=kb, nb=nb, ib=ib, fired=fired):
                if sch.b is None and idx == target:
                    fired.append(f'{when}-{name}')
                    sch.spawn(lambda: wr.tx(kb, ib + 1, nb))
                elif sch.b is not None and when == 'post':
                    sch.wait_b(name)

            v_before = len(rec.order)

            def run_a(ka=ka, na=na, ia=ia, on_yield=on_yield):
                sch.watch(threading.get_ident(), on_yield)
                try:
                    wr.tx(ka, ia, na)
                except Exception as ex:  # noqa: BLE001
                    errors.append(f'writer A ({ka}): {ex!r}'[:300])
                finally:
                    sch.unwatch()
            ta = threading.Thread(target=run_a, name='A')
            ta.start()
            ta.join(60)
            if sch.b is not None:
                sch.b['thread'].join(60)
            npoints = sch.n
            schedules.append({'a': ka, 'b': kb, 'point': target, 'at': fired[0] if fired else None,
                              'points_of_a': list(sch.points), 'versions': rec.order[v_before:],
                              'by': [rec.commits[v]['thread'] for v in rec.order[v_before:]]})
            sch.b = None
            target += 1
            if target >= npoints or ta.is_alive():
                break
errors.extend(sch.errors)
n_sched_commits = len(rec.order)


# ---------------------------------------------------------------- phase 2: free-running writer threads
def worker(k):
    try:
        for i in range(ntx):
            wr.tx(cc.KINDS[(k + i) % len(cc.KINDS)], k, 100000 + k * 1000 + i)
    except Exception as ex:  # noqa: BLE001
        errors.append(f'thread {k}: {ex!r}'[:300])


threads = [threading.Thread(target=worker, args=(k,), name=f'T{k}') for k in range(nthreads)]
for t in threads:
    t.start()
for t in threads:
    t.join(180)
errors.extend(rec.problems)
out = {'errors': errors, 'final_version': int(pm.mdib_version), 'seq': pm.sequence_id, 'inst': pm.instance_id,
       'commits': {str(v): rec.commits[v] for v in rec.order}, 'commit_order': rec.order,
       'scheduled_commits': n_sched_commits, 'schedules': schedules,
       'subscribers': {c._verif_server.netloc: cc.arrivals(w, c, canon) for c in (cons1, cons2)}}
w.stop()
sys.stdout = _stdout
print(json.dumps(out))
