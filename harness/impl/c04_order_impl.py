"""C04 stream `order`: several real writer threads commit concurrently; every subscriber must be handed the
reports in non-decreasing MdibVersion order (and each report carries the version of its commit)."""
import json
import re
import sys
import threading
from decimal import Decimal

import mdibrun
mdibrun.preimport()
from world import World  # noqa: E402

req = json.load(sys.stdin)
w = World(async_subscriptions=False)
cons1 = w.add_consumer()
cons2 = w.add_consumer()
pm = w.provider.mdib
pm.pre_commit_handler = None
pm.post_commit_handler = None
handles = req['handles']
nthreads, ntx = req.get('threads', 4), req.get('tx', 12)
errors = []


def worker(k):
    try:
        for i in range(ntx):
            kind = (k + i) % 3
            if kind == 0:
                with pm.metric_state_transaction() as tr:
                    s = tr.get_state(handles[k % len(handles)])
                    if s.MetricValue is None:
                        s.mk_metric_value()
                    s.MetricValue.Value = Decimal(k * 1000 + i)
            elif kind == 1:
                with pm.component_state_transaction() as tr:
                    s = tr.get_state(req['comp'][k % len(req['comp'])])
                    s.OperatingHours = k * 1000 + i
            else:
                with pm.descriptor_transaction() as tr:
                    d = tr.get_descriptor(handles[k % len(handles)])
                    d.SafetyClassification = list(pm.data_model.pm_types.SafetyClassification)[(k + i) % 4]
    except Exception as ex:  # noqa: BLE001
        errors.append(repr(ex)[:300])


threads = [threading.Thread(target=worker, args=(k,)) for k in range(nthreads)]
for t in threads:
    t.start()
for t in threads:
    t.join(120)
out = {'errors': errors, 'final_version': pm.mdib_version, 'subscribers': {}}
for cons in (cons1, cons2):
    netloc = cons._verif_server.netloc
    seq = []
    for ex in w.net.log:
        if ex.netloc == netloc and ex.method == 'POST':
            body = ex.decoded_body()
            m = re.search(rb'MdibVersion="(\d+)"', body)
            a = re.search(rb'Action>([^<]+)<', body)
            if m:
                seq.append([int(m.group(1)), a.group(1).decode().rsplit('/', 1)[-1] if a else '?', ex.status])
    out['subscribers'][netloc] = seq
    out.setdefault('consumer_versions', []).append(None)
w.stop()
print(json.dumps(out))
