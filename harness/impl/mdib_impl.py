"""Implementation side of the MDIB history streams (C01 C02 C03 C04 C06 C10 C11): executes generated
transaction histories on the loop-back world; prints per case a trace of deltas + in-process oracle verdicts."""
from __future__ import annotations

import copy
import json
import sys
import traceback

from world import World  # noqa: I001  (imports sdc11073)
import mdibrun
from mdibrun import Canon, NotificationRecorder, VClock, SeededUuid

from sdc11073.exceptions import ApiUsageError
from sdc11073.mdib import consumermdib as _cmod

# number of real-time samples ever appended to a consumer waveform buffer (the deque itself is bounded)
RT_ADDED = [0]
_orig_add_rt = _cmod.ConsumerRtBuffer.add_rt_sample_containers


def _counting_add_rt(self, sc):
    sc = list(sc)
    RT_ADDED[0] += len(sc)
    return _orig_add_rt(self, sc)


_cmod.ConsumerRtBuffer.add_rt_sample_containers = _counting_add_rt

req = json.load(sys.stdin)


class Abort(Exception):
    pass


def exc_code(ex):
    if isinstance(ex, Abort):
        return 'Abort'
    if isinstance(ex, ApiUsageError):
        return 'ApiUsageError'
    if isinstance(ex, (KeyError, ValueError, AttributeError, TypeError, NotImplementedError, RuntimeError)):
        return type(ex).__name__
    return 'Other:' + type(ex).__name__


TX = {'metric': 'metric_state_transaction', 'alert': 'alert_state_transaction', 'comp': 'component_state_transaction',
      'op': 'operational_state_transaction', 'rt': 'rt_sample_state_transaction'}


class _IdSet:
    def __init__(self):
        self.ids = set()

    def __contains__(self, ex):
        return id(ex) in self.ids

    def __ior__(self, other):
        self.ids |= set(other)
        return self


class Runner:
    def __init__(self, case):
        self.case = case
        self.clock = VClock(1000.0)
        mdibrun.preimport()
        mdibrun.install_clock(self.clock)
        mdibrun.install_uuid(SeededUuid(case.get('seed', 1)))
        self.w = World(mdib_file=case.get('mdib', '70041_MDIB_Final.xml'), max_subscription_duration=7200)
        self.canon = Canon()
        self.prov = self.w.provider
        self.pm = self.prov.mdib
        self.pm_types = self.pm.data_model.pm_types
        if not case.get('role_hooks', False):
            # the tutorial role providers hook into every commit (e.g. the alarm provider touches the alert
            # system state); the streams exercise the library's own semantics, so the hooks are detached
            self.pm.pre_commit_handler = None
            self.pm.post_commit_handler = None
        if 'inst' in case:
            # InstanceId of the provider: absent (None, the library default), 0, or a number (the test device sets 1)
            self.pm.instance_id = case['inst']
        self.cons = None
        self.cm = None
        self.rec = None
        self.handed_out = []      # objects handed out by getters (for the isolation stream)
        self.slots = {}           # entities read by a 'read' operation; written (possibly stale) by later operations
        self.stored = []          # fault streams: raw notification requests in emission order
        self.pending = []
        self.pending_seen = _IdSet()
        self.delivered_ids = set()
        self.last_ex = None
        self.inflight_delivered = []
        self.caught = []
        self.init_log = None
        self.init_error = None
        if case.get('consumer', True):
            from sdc11073.mdib.consumermdib import ConsumerMdib
            self.cons = self.w.add_consumer()
            self.cm = ConsumerMdib(self.cons)
            try:
                # FIRST load: the provider commits case['init_during'] after it has built its GetMdibResponse and
                # before the consumer receives it; the reports reach the (subscribed, still initialising) consumer
                self.init_log = self.in_flight(case.get('init_during') or [], self.cm.init_mdib)
            except Exception as ex:  # noqa: BLE001
                self.init_error = exc_code(ex) + ':' + traceback.format_exc()[-500:]
            self.rec = NotificationRecorder(self.cm, self.canon)
        if case.get('delivery') is not None and self.cons is not None:
            cons_netloc = self.cons._verif_server.netloc

            def hook(ex):
                if ex.netloc == cons_netloc and ex.method == 'POST':
                    self.stored.append(ex)
                    return ('status', 202)      # the provider believes the notification was delivered
                return None
            self.w.net.hook = hook

    # ------------------------------------------------------------------ GetMdib in flight
    def in_flight(self, ops, call):
        """run call() (init_mdib / reload_all); the provider executes `ops` after it has built the response to the
        consumer's first request to the Get service and before the consumer receives that response.  Returns a log:
        version of the snapshot, then per operation result, provider delta and the kinds / versions of its reports."""
        srv = self.w.provider_server
        orig = srv.handle_raw
        log = []
        armed = [bool(ops)]

        def handle_raw(raw, peer):
            resp = orig(raw, peer)
            line = raw.split(b'\r\n', 1)[0].split()
            if armed[0] and len(line) > 1 and line[0] == b'POST' and line[1].endswith(b'/Get'):
                armed[0] = False
                log.append({'snapshot_ver': self.pm.mdib_version})
                for op in ops:
                    log.append(self.sub_op(op))
            return resp
        srv.handle_raw = handle_raw
        try:
            call()
        finally:
            del srv.handle_raw
        return log

    def sub_op(self, op):
        """one provider operation inside the in-flight window; in the fault streams its notifications are handed to
        the consumer at once, in order (op['dup']: each of them twice)"""
        self.clock.advance(op.get('dt', 0.125))
        n0, s0 = len(self.w.net.log), len(self.stored)
        prev = mdibrun.snapshot(self.pm, self.canon)
        res = self.exec_op(op)
        cur = mdibrun.snapshot(self.pm, self.canon)
        fresh = self.stored[s0:]
        self.pending_seen |= set(id(e) for e in fresh)
        for e in fresh:
            for _ in range(2 if op.get('dup') else 1):
                self.inflight_delivered.append(self.deliver(e))
        reports = [self.parse(ex) for ex in self.w.net.log[n0:]
                   if self.cons is not None and ex.netloc == self.cons._verif_server.netloc and ex.method == 'POST']
        return {'op': op, 'res': res, 'prov': delta(prev, cur),
                'reports': [[r.get('kind'), r.get('ver')] for r in reports if not r.get('other')]}

    def exec_op(self, op):
        res = 'ok'
        try:
            {'state': self.do_state, 'ctx': self.do_ctx, 'location': self.do_location,
             'descr': self.do_descr, 'setctx': self.do_setctx, 'reseq': self.do_reseq, 'reload': self.do_reload,
             'read': self.do_read, 'nop': lambda op: None}[op['k']](op)
        except Exception as ex:  # noqa: BLE001
            res = exc_code(ex)
            if res.startswith('Other'):
                res += ':' + traceback.format_exc()[-600:]
        return res

    # ------------------------------------------------------------------ ops
    def do_read(self, op):
        ent = self.pm.entities.by_handle(op['handle'])
        if ent is None:
            raise KeyError(op['handle'])
        self.slots[op['slot']] = ent

    def entity(self, handle, slot=None):
        """a fresh entity, or the one that an earlier 'read' operation put into `slot` (stale by now if other
        transactions committed on the same object since)"""
        ent = self.slots[slot] if slot is not None else self.pm.entities.by_handle(handle)
        if ent is None:
            raise KeyError(handle)
        return ent

    REJECTED = (ApiUsageError, KeyError, ValueError)

    def handled(self, op, indices, ex):
        """op['catch']: the application catches a rejected API call inside the transaction body and goes on"""
        if not op.get('catch') or not isinstance(ex, self.REJECTED):
            raise ex
        self.caught += [[i, exc_code(ex)] for i in indices]

    def do_state(self, op):
        body_step = 0
        unget = op.get('unget')
        unget = [unget] if isinstance(unget, int) else (unget or [])
        batch = op.get('batch') or 0          # the first `batch` items are written by ONE write_entities call
        with getattr(self.pm, TX[op['tx']])() as tr:
            if batch:
                ents = []
                for handle, n, *slot in op['items'][:batch]:
                    ent = self.entity(handle, *slot)
                    if not ent.is_multi_state:
                        mdibrun.set_payload(ent.state, n, self.pm_types)
                    ents.append(ent)
                try:
                    tr.write_entities(ents)
                except Exception as ex:  # noqa: BLE001
                    self.handled(op, range(batch), ex)
            for i, (handle, n, *slot) in enumerate(op['items']):
                if i < batch:
                    continue
                if op.get('abort_at') == i:
                    raise Abort
                try:
                    if op.get('iface') == 'entity':
                        ent = self.entity(handle, *slot)
                        mdibrun.set_payload(ent.state, n, self.pm_types)
                        tr.write_entity(ent)
                    else:
                        st = tr.get_state(handle)
                        mdibrun.set_payload(st, n, self.pm_types)
                        if i in unget:
                            tr.unget_state(st)
                except Exception as ex:  # noqa: BLE001
                    self.handled(op, [i], ex)
            if op.get('abort_at') == len(op['items']):
                raise Abort
        return body_step

    def do_ctx(self, op):
        with self.pm.context_state_transaction() as tr:
            for i, act in enumerate(op['actions']):
                if op.get('abort_at') == i:
                    raise Abort
                try:
                    kind = act[0]
                    if kind == 'mk':
                        _, dh, handle, assoc, n, *slot = act
                        if op.get('iface') == 'entity':
                            ent = self.entity(dh, *slot)
                            st = ent.new_state(handle)
                            mdibrun.set_payload(st, n, self.pm_types)
                            if assoc:
                                st.ContextAssociation = self.pm_types.ContextAssociation.ASSOCIATED
                                st.BindingMdibVersion = tr.new_mdib_version
                            tr.write_entity(ent, [st.Handle])
                        elif op.get('add_state') and handle is not None:
                            handle = self.real_handle(handle)
                            # the application builds the container itself and hands it to add_state
                            st = self.pm.data_model.mk_state_container(self.pm.descriptions.handle.get_one(dh))
                            st.Handle = handle
                            mdibrun.set_payload(st, n, self.pm_types)
                            if assoc:
                                st.ContextAssociation = self.pm_types.ContextAssociation.ASSOCIATED
                                st.BindingMdibVersion = tr.new_mdib_version
                                st.BindingStartTime = mdibrun._real_time.time()
                            if op.get('add_state') == 'bare':
                                st.descriptor_container = None      # add_state looks the descriptor up itself
                            tr.add_state(st)
                        else:
                            handle = self.real_handle(handle) if 'existing-ctx-handle' in op.get('tag', []) else handle
                            st = tr.mk_context_state(dh, handle, set_associated=bool(assoc))
                            mdibrun.set_payload(st, n, self.pm_types)
                    elif kind == 'get':
                        _, handle, n, assoc, *slot = act
                        handle = self.real_handle(handle)
                        if op.get('iface') == 'entity':
                            st0 = self.pm.context_states.handle.get_one(handle)
                            ent = self.entity(st0.DescriptorHandle, *slot)
                            st = ent.states[handle]
                        else:
                            st = tr.get_context_state(handle)
                        mdibrun.set_payload(st, n, self.pm_types)
                        if assoc is not None:
                            st.ContextAssociation = (self.pm_types.ContextAssociation.ASSOCIATED if assoc
                                                     else self.pm_types.ContextAssociation.DISASSOCIATED)
                        if op.get('iface') == 'entity':
                            tr.write_entity(ent, [handle])
                    elif kind == 'disall':
                        _, dh, ignored = act
                        tr.disassociate_all(dh, self.real_handle(ignored))
                    elif kind == 'wr':          # ONE write_entity call for several context states of one descriptor
                        _, dh, handles, n = act
                        handles = [self.real_handle(h) for h in handles]
                        ent = self.entity(dh)
                        for k, h in enumerate(handles):
                            if h in ent.states:
                                mdibrun.set_payload(ent.states[h], n + k, self.pm_types)
                        tr.write_entity(ent, handles)
                    elif kind == 'delstate':     # entity interface only: delete a context state
                        _, handle = act
                        handle = self.real_handle(handle)
                        st0 = self.pm.context_states.handle.get_one(handle)
                        ent = self.pm.entities.by_handle(st0.DescriptorHandle)
                        ent.states.pop(handle)
                        tr.write_entity(ent, [handle])
                except Exception as ex:  # noqa: BLE001
                    self.handled(op, [i], ex)
            if op.get('abort_at') == len(op['actions']):
                raise Abort

    def parse(self, ex):
        try:
            r = mdibrun.parse_report(ex.decoded_body(), self.cons.msg_reader, self.pm.data_model, self.canon)
        except Exception as e2:  # noqa: BLE001
            r = {'kind': 'UNPARSABLE', 'err': repr(e2)[:200]}
        r['status'] = ex.status
        r['n'] = self.stored.index(ex) if ex in self.stored else None
        return r

    def fingerprint(self):
        """cheap identity of the consumer MDIB content: version group, every version counter, number of real-time
        samples ever put into the waveform buffers"""
        cm = self.cm
        return (cm.mdib_version, cm.sequence_id, cm.instance_id,
                tuple(sorted((d.Handle, d.DescriptorVersion) for d in cm.descriptions.objects)),
                tuple(sorted((s.DescriptorHandle, s.StateVersion, s.DescriptorVersion) for s in cm.states.objects)),
                tuple(sorted((s.Handle, s.StateVersion, s.DescriptorVersion) for s in cm.context_states.objects)),
                RT_ADDED[0])

    def deliver(self, ex):
        import http.client
        from world import _RespSocket
        before = self.fingerprint() if self.cm is not None else None
        raw = self.cons._verif_server.handle_raw(ex.request, ('127.0.0.1', 29999))
        resp = http.client.HTTPResponse(_RespSocket(raw), method='POST')
        resp.begin()
        r = dict(self.parse(ex))
        r['status'] = resp.status
        if self.cm is not None:
            after = self.fingerprint()
            r['changed'] = [k for k, (a, b) in enumerate(zip(before, after)) if a != b]   # indices of the parts that differ
            r['cver'] = before[0]                              # the consumer's MdibVersion before this delivery
            r['cmode'] = self.cm._state.name
            r['again'] = id(ex) in self.delivered_ids          # this very notification was delivered before (since the last reload)
            self.delivered_ids.add(id(ex))
        return r

    def do_setctx(self, op):
        """SetContextState through the real consumer service client and the tutorial role provider's handler"""
        csc = self.cons.context_service_client
        CA = self.pm_types.ContextAssociation
        amap = {'Assoc': CA.ASSOCIATED, 'Dis': CA.DISASSOCIATED, 'No': CA.NO_ASSOCIATION, 'Pre': CA.PRE_ASSOCIATION}
        proposals = []
        self.resolved = []
        for handle, assoc, n, *rest in op['proposals']:
            dh = rest[0] if rest else op['dh']
            if isinstance(handle, list):        # ['nth', i]: the i-th existing context state of that descriptor
                cands = sorted((self.canon.h(s.Handle) for s in self.pm.context_states.objects if s.DescriptorHandle == dh),
                               key=lambda c: (len(c), c))
                handle = cands[handle[1] % len(cands)] if cands else 'no_such_state'
            self.resolved.append(handle)
            st = csc.mk_proposed_context_object(dh, self.real_handle(handle))
            if assoc is not None:
                st.ContextAssociation = amap[assoc]
            mdibrun.set_payload(st, n, self.pm_types)
            proposals.append(st)
        fut = csc.set_context_state(op['op_handle'], proposals)
        res = fut.result(timeout=10)
        state = res.InvocationInfo.InvocationState
        state = getattr(state, 'value', state)
        if state != 'Fin':
            raise RuntimeError(f'InvocationState={state}')

    def do_reseq(self, op):
        import uuid as _u
        if op.get('seq', True):
            self.pm.sequence_id = _u.UUID(int=0x5E0000 + op['n']).urn
        how = op.get('inst')
        if how in ('none', 'zero'):          # the InstanceId goes away / becomes 0 (a number if it was that already)
            want = None if how == 'none' else 0
            self.pm.instance_id = want if self.pm.instance_id != want else op['n'] + 10
        elif how:
            self.pm.instance_id = (self.pm.instance_id or 0) + 1

    def do_reload(self, op):
        self.delivered_ids = set()
        # notifications that arrive while GetMdib is in flight are delivered from inside the transport hook
        # (these were committed BEFORE the snapshot; op['during'] = operations committed after it, see in_flight)
        inflight = [1] if op.get('inflight') else []
        self.inflight_delivered = []
        self.reload_log = None
        self.pending += [ex for ex in self.stored if ex not in self.pending_seen]
        self.pending_seen |= set(id(e) for e in self.pending)
        old_hook = self.w.net.hook
        prov_netloc = self.w.provider_server.netloc

        def hook(ex):
            if ex.netloc == prov_netloc and ex.method == 'POST' and ex.path.endswith('/Get') and inflight:
                del inflight[:]
                todo, self.pending = self.pending, []
                for e in todo:
                    self.inflight_delivered.append(self.deliver(e))
                return None
            return old_hook(ex) if old_hook else None
        self.w.net.hook = hook
        spy = None
        if op.get('race'):
            # a report that arrives on another thread exactly while reload_all replays the buffered notifications:
            # the notification thread has seen "initializing" and waits for the buffer lock that reload_all holds
            import threading
            runner = self
            real = self.cm._buffered_notifications_lock
            main = threading.get_ident()

            class SpyLock:
                def __init__(self):
                    self.fired = False
                    self.thread = None
                    self.at_lock = threading.Event()

                def __enter__(self):
                    if threading.get_ident() != main:
                        self.at_lock.set()
                        real.acquire()
                        return self
                    real.acquire()
                    if not self.fired and runner.cm._state.name == 'initializing':
                        self.fired = True
                        n0 = len(runner.stored)
                        with runner.pm.metric_state_transaction() as tr:      # a commit newer than the GetMdib snapshot
                            st = tr.get_state(op['race'])
                            mdibrun.set_payload(st, 424242, runner.pm_types)
                        fresh = runner.stored[n0:]
                        runner.pending_seen |= set(id(e) for e in fresh)

                        def deliver():
                            for e in fresh:
                                runner.inflight_delivered.append(runner.deliver(e))
                        self.thread = threading.Thread(target=deliver)
                        self.thread.start()
                        self.at_lock.wait(5)
                    return self

                def __exit__(self, *a):
                    real.release()

                def acquire(self, *a, **k):
                    self.__enter__()
                    return True

                def release(self):
                    real.release()
            spy = SpyLock()
            self.cm._buffered_notifications_lock = spy
        try:
            self.reload_log = self.in_flight(op.get('during') or [], self.cm.reload_all)
        finally:
            self.w.net.hook = old_hook
            if spy is not None:
                if spy.thread is not None:
                    spy.thread.join(10)
                self.cm._buffered_notifications_lock = real

    @staticmethod
    def stale_version(table, handle, n):
        """the version counter an application-made container carries when it RE-creates a removed handle: an old copy
        still has some earlier version (the library must continue from the remembered one whatever the container says);
        a handle that never existed starts at 0"""
        return (n % 4) if table.handle_version_lookup.get(handle) is not None else 0

    def real_handle(self, h):
        if h is None:
            return None
        for real, canon in self.canon.handles.items():
            if canon == h:
                return real
        return h

    def do_location(self, op):
        from sdc11073.location import SdcLocation
        loc = SdcLocation(fac=f'fac{op["n"]}', poc='poc', bed=f'bed{op["n"] % 3}')
        self.prov.set_location(loc)

    def template(self, type_name):
        cands = sorted((d for d in self.pm.descriptions.objects if d.NODETYPE.localname == type_name),
                       key=lambda d: d.Handle)
        if not cands:
            raise KeyError(type_name)
        return cands[0]

    def do_descr(self, op):
        pending_mds = {}
        with self.pm.descriptor_transaction() as tr:
            for i, act in enumerate(op['actions']):
                if op.get('abort_at') == i:
                    raise Abort
                try:
                    kind = act[0]
                    if kind == 'add':
                        _, handle, parent, type_name, n, with_state, *slot = act
                        if op.get('iface') == 'entity' and slot:
                            # the entity was read before its descriptor was removed: writing it creates the descriptor again
                            ent = self.entity(handle, *slot)
                            mdibrun.set_payload(ent.descriptor, n, self.pm_types)
                            pending_mds[handle] = ent.descriptor.source_mds
                            if not ent.is_multi_state and with_state is not None:
                                mdibrun.set_payload(ent.state, with_state, self.pm_types)
                            tr.write_entity(ent)
                        elif op.get('iface') == 'entity':
                            ent = self.pm.entities.by_handle(self.template(type_name).Handle)   # private deep copies
                            ent.descriptor.Handle = handle
                            ent.descriptor.parent_handle = parent
                            ent.descriptor.DescriptorVersion = self.stale_version(self.pm.descriptions, handle, n)
                            # like ProviderEntityGetter.new_entity: the source MDS is inherited from the parent; a
                            # descriptor without parent is an MDS and its own source
                            par = self.pm.descriptions.handle.get_one(parent, allow_none=True) if parent is not None else None
                            ent.descriptor.set_source_mds(handle if parent is None else
                                                          par.source_mds if par is not None else pending_mds.get(parent))
                            pending_mds[handle] = ent.descriptor.source_mds
                            mdibrun.set_payload(ent.descriptor, n, self.pm_types)
                            if ent.is_multi_state:
                                ent.states.clear()
                            else:
                                ent.state.DescriptorHandle = handle
                                ent.state.descriptor_container = ent.descriptor
                                ent.state.StateVersion = self.stale_version(self.pm.states, handle, n + 1)
                                if with_state is not None:
                                    mdibrun.set_payload(ent.state, with_state, self.pm_types)
                            tr.write_entity(ent)
                        else:
                            d = copy.deepcopy(self.template(type_name))
                            d.Handle = handle
                            d.parent_handle = parent
                            d.DescriptorVersion = self.stale_version(self.pm.descriptions, handle, n)
                            d.set_source_mds(None)                    # a new descriptor: the library determines its MDS
                            mdibrun.set_payload(d, n, self.pm_types)
                            st = None
                            if not d.is_context_descriptor:
                                st = self.pm.data_model.mk_state_container(d)
                                st.StateVersion = self.stale_version(self.pm.states, handle, n + 1)
                                if with_state is not None:
                                    mdibrun.set_payload(st, with_state, self.pm_types)
                            tr.add_descriptor(d, state_container=st)
                    elif kind == 'addbad':      # add_descriptor with the state container of ANOTHER descriptor
                        _, handle, parent, type_name, n, other = act
                        d = copy.deepcopy(self.template(type_name))
                        d.Handle = handle
                        d.parent_handle = parent
                        d.DescriptorVersion = 0
                        d.set_source_mds(None)
                        mdibrun.set_payload(d, n, self.pm_types)
                        st = self.pm.data_model.mk_state_container(self.pm.descriptions.handle.get_one(other))
                        tr.add_descriptor(d, state_container=st)
                    elif kind == 'upd':
                        _, handle, n, *slot = act
                        if op.get('iface') == 'entity':
                            ent = self.entity(handle, *slot)
                            mdibrun.set_payload(ent.descriptor, n, self.pm_types)
                            tr.write_entity(ent)
                        else:
                            d = tr.get_descriptor(handle)
                            mdibrun.set_payload(d, n, self.pm_types)
                    elif kind == 'updsrc':      # change an INDEXED attribute: AlertCondition.Source / AlertSignal.ConditionSignaled
                        _, handle, value = act
                        d = tr.get_descriptor(handle)
                        if hasattr(d, 'Source') and d.NODETYPE.localname.endswith('ConditionDescriptor'):
                            d.Source = list(value)
                        else:
                            d.ConditionSignaled = value[0] if value else None
                    elif kind == 'del':
                        _, handle = act
                        if op.get('iface') == 'entity':
                            ent = self.pm.entities.by_handle(handle)
                            if ent is None:
                                raise KeyError(handle)
                            tr.remove_entity(ent)
                        else:
                            tr.remove_descriptor(handle)
                    elif kind == 'state':
                        _, handle, n = act
                        st = tr.get_state(handle)
                        mdibrun.set_payload(st, n, self.pm_types)
                except Exception as ex:  # noqa: BLE001
                    self.handled(op, [i], ex)
            if op.get('abort_at') == len(op['actions']):
                raise Abort

    # ------------------------------------------------------------------ driver
    def run(self):
        trace = []
        prev_p = mdibrun.snapshot(self.pm, self.canon)
        prev_c = mdibrun.snapshot(self.cm, self.canon) if self.cm else None
        init = {'prov': prev_p, 'mirror0': mirror_diff(prev_p, prev_c) if prev_c else None}
        if self.cm is not None:
            init['cons_vg'] = [prev_c['ver'], prev_c['seq'], prev_c['inst']]
            init['cmode'] = self.cm._state.name
            init['cons_problems'] = prev_c['index_problems'] + table_problems(prev_c)
            if self.init_log:
                init['during'] = self.init_log
            if self.init_error:
                init['error'] = self.init_error
        for op in ([] if self.init_error else self.case['ops']):
            self.clock.advance(op.get('dt', 0.125))
            n0 = len(self.w.net.log)
            self.resolved = None
            self.inflight_delivered = []
            self.reload_log = None
            self.caught = []
            res = self.exec_op(op)
            cur_p = mdibrun.snapshot(self.pm, self.canon)
            reports = []
            for ex in self.w.net.log[n0:]:
                if self.cons is not None and ex.netloc == self.cons._verif_server.netloc and ex.method == 'POST':
                    reports.append(self.parse(ex))
            delivered = []
            if self.case.get('delivery') is not None and self.cons is not None:
                reports = [self.parse(ex) for ex in self.w.net.log[n0:] if ex in self.stored]
                sched = self.case['delivery'][len(trace)] if len(trace) < len(self.case['delivery']) else ['all']
                self.pending += [ex for ex in self.w.net.log[n0:] if ex in self.stored and ex not in self.pending_seen]
                self.pending_seen |= set(id(e) for e in self.pending)
                for tok in sched:
                    todo = []
                    if tok == 'all':
                        todo, self.pending = self.pending, []
                    elif tok == 'cur':      # only what this transaction sent; older pending notifications stay withheld
                        now = [e for e in self.pending if e in self.w.net.log[n0:]]
                        todo, self.pending = now, [e for e in self.pending if e not in now]
                    elif tok == 'rev':
                        todo, self.pending = self.pending[::-1], []
                    elif tok == 'dup':
                        todo, self.pending = [e for e in self.pending for _ in (0, 1)], []
                    elif tok == 'drop':
                        self.pending = []
                    elif tok == 'newest' and self.pending:
                        todo, self.pending = [self.pending[-1]], self.pending[:-1]
                    elif isinstance(tok, list) and tok[0] == 'replay' and self.stored:
                        todo = [self.stored[tok[1] % len(self.stored)]]
                    elif tok == 'last' and self.last_ex is not None:
                        todo = [self.last_ex]       # the newest notification the consumer has seen, once more
                    elif isinstance(tok, int) and 0 <= tok < len(self.stored):
                        todo = [self.stored[tok]]
                    for ex in todo:
                        delivered.append(self.deliver(ex))
                        self.last_ex = ex
            step = {'res': res, 'prov': delta(prev_p, cur_p), 'reports': reports, 'delivered': delivered}
            if self.resolved is not None:
                step['resolved'] = self.resolved
            if self.caught:
                step['caught'] = self.caught
            if op['k'] == 'reload':
                step['inflight'] = self.inflight_delivered
                if self.reload_log:
                    step['during'] = self.reload_log
            if self.cm is not None:
                cur_c = mdibrun.snapshot(self.cm, self.canon)
                step['cons'] = delta(prev_c, cur_c)
                step['cons']['table_problems'] = table_problems(cur_c)
                step['notif'] = self.rec.take()
                step['mirror'] = mirror_diff(cur_p, cur_c)
                step['cmode'] = self.cm._state.name
                prev_c = cur_c
            prev_p = cur_p
            trace.append(step)
        self.w.stop()
        return {'init': init, 'trace': trace}


def delta(a, b):
    out = {'ver': b['ver'], 'index_problems': b['index_problems']}
    for t in ('descrs', 'states', 'cstates'):
        da = {str(x[0]): x for x in a[t]}
        db = {str(x[0]): x for x in b[t]}
        out[t] = {'set': [v for k, v in db.items() if da.get(k) != v], 'del': [k for k in da if k not in db]}
        if len(db) != len(b[t]):
            out['index_problems'] = out['index_problems'] + [f'{t}: two objects with one key']
    out['saved'] = {k: [e for e in b['saved'][k] if e not in a['saved'][k]] for k in ('d', 's', 'c')}
    # remembered versions that are gone (handle_version_lookup only ever grows in the unchanged library)
    out['saved_del'] = {k: sorted({str(e[0]) for e in a['saved'][k]} - {str(e[0]) for e in b['saved'][k]}) for k in ('d', 's', 'c')}
    if (b['seq'], b['inst']) != (a['seq'], a['inst']):
        out['seqinst'] = [b['seq'], b['inst']]
    return out


def table_problems(snap):
    """objects in the wrong table / without descriptor (consumer side)"""
    out = []
    descrs = {str(x[0]) for x in snap['descrs']}
    for x in snap['states']:
        if x[1].endswith('ContextState') and x[1] != 'SystemContextState':
            out.append(f'the single-state table holds {x[1]} {x[0]}')
        if str(x[0]) not in descrs:
            out.append(f'state {x[0]} has no descriptor')
    for x in snap['cstates']:
        if str(x[1]) not in descrs:
            out.append(f'context state {x[0]} has no descriptor {x[1]}')
    return out


def mirror_diff(p, c):
    """C01 oracle: first differences between provider and consumer snapshot ([] = exact mirror)."""
    diffs = []
    for k in ('ver', 'seq', 'inst'):
        if p[k] != c[k]:
            diffs.append([k, p[k], c[k]])
    for t in ('descrs', 'states', 'cstates'):
        dp = {str(x[0]): x for x in p[t]}
        dc = {str(x[0]): x for x in c[t]}
        for k in sorted(set(dp) | set(dc)):
            if dp.get(k) != dc.get(k):
                diffs.append([t, dp.get(k), dc.get(k)])
                if len(diffs) > 4:
                    return diffs
    return diffs


def inventory(mdib_file):
    import sdc11073.definitions_sdc  # noqa: F401
    from sdc11073.mdib import ProviderMdib
    from world import REPO
    m = ProviderMdib.from_mdib_file(str(REPO / 'tests' / mdib_file))
    inv = {'metric': [], 'metric_str': [], 'rt': [], 'alert': [], 'comp': [], 'op': [], 'ctx': [], 'tree': {},
           'types': {}, 'mds': [], 'alert_cond': [], 'alert_sig': []}
    for d in sorted(m.descriptions.objects, key=lambda d: d.Handle):
        inv['tree'][d.Handle] = d.parent_handle
        inv['types'][d.Handle] = d.NODETYPE.localname
        t = d.NODETYPE.localname
        if d.is_realtime_sample_array_metric_descriptor:
            inv['rt'].append(d.Handle)
        elif d.is_metric_descriptor:
            if t == 'NumericMetricDescriptor':
                inv['metric'].append(d.Handle)
            elif t in ('StringMetricDescriptor', 'EnumStringMetricDescriptor'):
                inv['metric_str'].append(d.Handle)
        elif d.is_alert_descriptor:
            inv['alert'].append(d.Handle)
            if t.endswith('ConditionDescriptor'):
                inv['alert_cond'].append(d.Handle)
            if t == 'AlertSignalDescriptor':
                inv['alert_sig'].append(d.Handle)
        elif d.is_component_descriptor:
            inv['comp'].append(d.Handle)
            if t == 'MdsDescriptor':
                inv['mds'].append(d.Handle)
        elif d.is_operational_descriptor:
            inv['op'].append(d.Handle)
        elif d.is_context_descriptor:
            inv['ctx'].append(d.Handle)
    # context states of the file under their canonical names (uuid handles are renamed in order of appearance)
    canon = Canon()
    inv['ctx_states'] = {canon.h(s.Handle): s.DescriptorHandle for s in m.context_states.objects}
    return inv


if 'inventory' in req:
    print(json.dumps({'inventory': inventory(req['inventory'])}))
    sys.exit(0)

out = []
for case in req['cases']:
    try:
        out.append(Runner(case).run())
    except Exception:  # noqa: BLE001
        out.append({'crash': traceback.format_exc()[-1500:]})
print(json.dumps({'results': out}))
