"""Translator: emits coq/Wsd/Gen_Params.v from /repo's networkingthread.py (fail-closed)."""
import ast
import inspect
import json
import sys

from sdc11073.wsdiscovery import networkingthread as nt


def params(p):
    for f in ('max_initial_delay_ms', 'repeat', 'min_delay_ms', 'max_delay_ms', 'upper_delay_ms'):
        v = getattr(p, f)
        if not isinstance(v, int) or isinstance(v, bool):
            raise SystemExit(f'fail-closed: {f}={v!r} is not an int')
    if p.repeat < 0 or p.repeat > 1000:
        raise SystemExit('fail-closed: repeat out of the translatable range')
    return (f'(mkParams ({p.max_initial_delay_ms}) {p.repeat}%nat ({p.min_delay_ms}) '
            f'({p.max_delay_ms}) ({p.upper_delay_ms}))')


def deque_maxlen():
    tree = ast.parse(inspect.getsource(nt.NetworkingThread))
    found = []
    for node in ast.walk(tree):
        if isinstance(node, ast.Assign) and len(node.targets) == 1:
            t = node.targets[0]
            if isinstance(t, ast.Attribute) and t.attr == '_known_message_ids':
                c = node.value
                if (isinstance(c, ast.Call) and isinstance(c.func, ast.Attribute) and c.func.attr == 'deque'
                        and not c.args and len(c.keywords) == 1 and c.keywords[0].arg == 'maxlen'
                        and isinstance(c.keywords[0].value, ast.Constant)
                        and isinstance(c.keywords[0].value.value, int)):
                    found.append(c.keywords[0].value.value)
                else:
                    raise SystemExit('fail-closed: _known_message_ids is not collections.deque(maxlen=<int>)')
    if len(found) != 1 or not (0 <= found[0] <= 5000):
        raise SystemExit(f'fail-closed: cannot determine maxlen of _known_message_ids: {found}')
    return found[0]


json.load(sys.stdin)
text = f'''(* GENERATED on every run by harness/impl/gen_wsd_params.py from
   src/sdc11073/wsdiscovery/networkingthread.py -- do not edit. *)
From Coq Require Import ZArith.
From SDC Require Import Wsd.Udp.
Open Scope Z_scope.
Definition unicast_params : params := {params(nt.UNICAST_REPEAT_PARAMS)}.
Definition multicast_params : params := {params(nt.MULTICAST_REPEAT_PARAMS)}.
Definition known_ids_cap : nat := {deque_maxlen()}%nat.
'''
print(json.dumps({'rel': 'Wsd/Gen_Params.v', 'text': text,
                  'unicast': list(vars(nt.UNICAST_REPEAT_PARAMS).values()) if hasattr(nt.UNICAST_REPEAT_PARAMS, '__dict__') else None}))
