"""C03 stream `commit-failure`: a commit that fails inside report sending (schema-invalid application data
makes serialisation raise) must leave the MDIB as it was."""
import json
import sys

import mdibrun
mdibrun.preimport()
from world import World  # noqa: E402

req = json.load(sys.stdin)
w = World()
cons = w.add_consumer()
cm = w.consumer_mdib(cons)
pm = w.provider.mdib
pm.pre_commit_handler = None
pm.post_commit_handler = None
canon = mdibrun.Canon()
out = []
for h in req['handles']:
    s0 = mdibrun.snapshot(pm, canon)
    n0 = len(w.net.log)
    raised = None
    try:
        with pm.metric_state_transaction() as tr:
            st = tr.get_state(h)
            st.BodySite.append(pm.data_model.pm_types.CodedValue(''))     # empty Code violates the schema
    except Exception as ex:  # noqa: BLE001
        raised = type(ex).__name__
    s1 = mdibrun.snapshot(pm, canon)
    core = lambda s: {k: s[k] for k in ('ver', 'descrs', 'states', 'cstates')}  # noqa: E731
    out.append({'handle': h, 'raised': raised, 'mdib_changed': core(s0) != core(s1),
                'ver': [s0['ver'], s1['ver']], 'notifications_sent': len(w.net.log) - n0,
                'consumer_ver': cm.mdib_version})
    if core(s0) != core(s1):
        break       # the MDIB now holds invalid data; further transactions would only repeat the failure
w.stop()
print(json.dumps({'results': out}))
