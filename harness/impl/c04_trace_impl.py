"""C04: lock-step programs traced from the running code, in the vocabulary of coq/Conc/Model.v
(AcqTr RelTr AcqMdib RelMdib Commit Send ReadVersion ReadContent):

  commit_<kind>            one committing transaction of every kind (metric, alert, component, operational, context incl.
                           a new context state, rt_sample, descriptor update / create / delete), traced in the writer
                           thread: Commit = process_transaction changed the MdibVersion, Send = a notification was put
                           on the wire for a subscriber BY THIS THREAD (a send from another thread or after the locks were
                           released changes the program)
  periodic_collect_<ms>    one iteration of PeriodicReportsHandler._periodic_reports_send_loop per period, traced in the
                           periodic thread: ReadContent = a read of the states / context-states tables,
                           ReadVersion = THE read of mdib_version whose result became the label of the PeriodicStates handed
                           to the services (found by data flow: the traced attribute returns a tagged int); other version
                           reads (the version group for the envelope) and reads of the descriptions table (sorting the
                           handles by kind) are counted but are not part of the program

Used by harness/impl/gen_conc_programs.py (-> coq/Conc/Gen_Programs.v).  Fail-closed."""
import json
import sys
import threading

import mdibrun
mdibrun.preimport()
from world import World  # noqa: E402

import c04_common as cc  # noqa: E402

from sdc11073 import intervaltimer, multikey  # noqa: E402
from sdc11073.provider import periodicreports  # noqa: E402
from sdc11073.xml_types.pm_types import Retrievability, RetrievabilityInfo, RetrievabilityMethod  # noqa: E402

req = json.load(sys.stdin)
_stdout, sys.stdout = sys.stdout, sys.stderr
INV = req.get('inv')


class Tr:
    thread = None        # ident of the traced thread
    events = []
    depth = {'mdib': 0, 'tr': 0}
    rid = 0

    @classmethod
    def on(cls):
        return cls.thread is not None and threading.get_ident() == cls.thread

    @classmethod
    def ev(cls, *e):
        if cls.on():
            cls.events.append(e if len(e) > 1 else e[0])


class TraceLock:
    def __init__(self, real, name):
        self._real, self._name = real, name

    def acquire(self, *a, **k):
        r = self._real.acquire(*a, **k)
        if r and Tr.on():
            Tr.depth[self._name] += 1
            if Tr.depth[self._name] == 1:
                Tr.ev('AcqMdib' if self._name == 'mdib' else 'AcqTr')
        return r

    def release(self):
        if Tr.on():
            Tr.depth[self._name] -= 1
            if Tr.depth[self._name] == 0:
                Tr.ev('RelMdib' if self._name == 'mdib' else 'RelTr')
        self._real.release()

    __enter__ = acquire

    def __exit__(self, *a):
        self.release()


class TaggedInt(int):
    def __new__(cls, v, rid=None):
        x = int.__new__(cls, v)
        x.rid = rid
        return x


class Gate:
    def __init__(self):
        self.cv = threading.Condition()
        self.arrived = 0
        self.permits = 0
        self.now = 1000.0

    def sleep(self, dt):
        if threading.current_thread().name != 'DevPeriodicSendLoop':
            return
        with self.cv:
            self.arrived += 1
            self.cv.notify_all()
            self.cv.wait_for(lambda: self.permits > 0)
            self.permits -= 1
        self.now += max(dt, 0.0)

    def run(self, k, timeout=120):
        with self.cv:
            target = self.arrived + k
            self.permits += k
            self.cv.notify_all()
            return self.cv.wait_for(lambda: self.arrived >= target, timeout=timeout)

    def wait_arrival(self, n=1, timeout=60):
        with self.cv:
            return self.cv.wait_for(lambda: self.arrived >= n, timeout=timeout)


def fail(msg):
    sys.stdout = _stdout
    print(json.dumps({'error': msg}))
    sys.exit(0)


def inventory():
    import subprocess, os
    here = os.path.dirname(os.path.abspath(__file__))
    p = subprocess.run([sys.executable, '-B', os.path.join(here, 'mdib_impl.py')],
                       input=json.dumps({'inventory': '70041_MDIB_Final.xml'}), capture_output=True, text=True, timeout=120)
    return json.loads(p.stdout.strip().splitlines()[-1])['inventory']


if INV is None:
    INV = inventory()
gate = Gate()
fake = type(sys)('time')
import time as _t  # noqa: E402
fake.__dict__.update(_t.__dict__)
fake.sleep = gate.sleep
periodicreports.time = fake
intervaltimer.sleep = gate.sleep
intervaltimer.perf_counter = lambda: gate.now
died = []
threading.excepthook = lambda a: died.append(f'{a.exc_type.__name__}: {a.exc_value}'[:300])

w = World(async_subscriptions=False, start=False)
pm = w.provider.mdib
pm.pre_commit_handler = None
pm.post_commit_handler = None
pm.mdib_lock = TraceLock(threading.RLock(), 'mdib')
pm._tr_lock = TraceLock(threading.Lock(), 'tr')

# ---- traced mdib_version (a plain attribute in the library): a data descriptor on a subclass
_base = type(pm)


def _get_version(self):
    v = self.__dict__.get('mdib_version', 0)
    if Tr.on():
        Tr.rid += 1
        Tr.ev('ReadVersion', Tr.rid)
        return TaggedInt(v, Tr.rid)
    return v


def _set_version(self, value):
    self.__dict__['mdib_version'] = int(value)


pm.__class__ = type('TracedProviderMdib', (_base,), {'mdib_version': property(_get_version, _set_version)})

# ---- traced table reads
state_tables = (pm.states, pm.context_states)
tab_ids = {id(t): 'ReadContent' for t in state_tables}
tab_ids[id(pm.descriptions)] = 'ReadDescr'
idx_ids = {id(ix): kind for t, kind in ((pm.states, 'ReadContent'), (pm.context_states, 'ReadContent'),
                                        (pm.descriptions, 'ReadDescr')) for ix in t._idx_defs.values()}
_orig_objects = multikey.MultiKeyLookup.objects
multikey.MultiKeyLookup.objects = property(lambda self: (Tr.ev(tab_ids[id(self)]) if id(self) in tab_ids else None,
                                                         _orig_objects.fget(self))[1])
for _name in ('get', 'get_one', '__getitem__'):
    def _mk(orig):
        def traced(self, *a, **k):
            if id(self) in idx_ids:
                Tr.ev(idx_ids[id(self)])
            return orig(self, *a, **k)
        return traced
    setattr(multikey.IndexDefinition, _name, _mk(getattr(multikey.IndexDefinition, _name)))

# ---- periodic retrievability: two periods
types = INV['types']
ctx_descr = ([h for h in INV['ctx'] if types[h] == 'PatientContextDescriptor'] or INV['ctx'])[0]
period_of = {INV['metric'][0]: 500, INV['alert'][0]: 500, INV['comp'][1]: 500, INV['op'][0]: 500,
             INV['metric'][1]: 1500, ctx_descr: 1500}
for h, p in period_of.items():
    descr = pm.descriptions.handle.get_one(h)
    retr_list = descr.get_retrievability()
    if len(retr_list) == 0:
        retr_list.append(Retrievability())
    retr_list[0].By.append(RetrievabilityInfo(RetrievabilityMethod.PERIODIC, update_period=p / 1000))
    descr.set_retrievability(retr_list)
pm.xtra.update_retrievability_lists()

# ---- Commit / Send events
_factory = pm._transaction_factory


def factory(mdib, ttype, logger):
    t = _factory(mdib, ttype, logger)
    real = t.process_transaction

    def process_transaction(*a, **k):
        v0 = mdib.__dict__.get('mdib_version')
        r = real(*a, **k)
        if mdib.__dict__.get('mdib_version') != v0:
            Tr.ev('Commit')
        return r
    t.process_transaction = process_transaction
    return t


pm._transaction_factory = factory
w.provider.start_all(start_rtsample_loop=False, shared_http_server=w.provider_server)
handler = w.provider._periodic_reports_handler
if not gate.wait_arrival(1):
    fail(f'the periodic thread did not start ({type(handler).__name__}); {died}')
cons = w.add_consumer()
sub_netloc = cons._verif_server.netloc
w.net.hook = lambda ex: Tr.ev('Send') if ex.method == 'POST' and ex.netloc == sub_netloc else None

inv_w = dict(INV)
wr = cc.Writers(pm, inv_w, nslots=2)
wr.setup()
out = {'programs': {}, 'raw': {}, 'not_in_program': {}}


def collapse(evs):
    prog = []
    for e in evs:
        if not prog or prog[-1] != e:
            prog.append(e)
    return prog


# ---------------------------------------------------------------- commit programs (writer thread = this thread)
def trace_commit(name, fn):
    Tr.events, Tr.depth = [], {'mdib': 0, 'tr': 0}
    Tr.thread = threading.get_ident()
    try:
        fn()
    finally:
        Tr.thread = None
    evs = [e for e in Tr.events if e in ('AcqTr', 'RelTr', 'AcqMdib', 'RelMdib', 'Commit', 'Send')]
    out['raw']['commit_' + name] = [e if isinstance(e, str) else e[0] for e in Tr.events]
    out['programs']['commit_' + name] = collapse(evs)


trace_commit('metric', lambda: wr.tx('metric', 0, 10))
trace_commit('alert', lambda: wr.tx('alert', 0, 12))
trace_commit('component', lambda: wr.tx('component', 1, 14))
trace_commit('operational', lambda: wr.tx('operational', 0, 16))
trace_commit('context', lambda: wr.tx('context', 0, 18))
trace_commit('context_new', lambda: wr.tx('context', 0, 19))
trace_commit('rt_sample', lambda: wr.tx('rt_sample', 0, 20))
trace_commit('descriptor', lambda: wr.tx('descriptor', 0, 22))
trace_commit('descriptor_create', lambda: wr.tx('descriptor', 0, 23))
trace_commit('descriptor_delete', lambda: wr.tx('descriptor', 0, 25))

# ---------------------------------------------------------------- the periodic collector (periodic thread)
handed = []      # (iteration marker index, kind, label object)
for _kind, (_svc, _meth) in {'metric': ('state_event_service', 'send_periodic_metric_report'),
                             'alert': ('state_event_service', 'send_periodic_alert_report'),
                             'component': ('state_event_service', 'send_periodic_component_state_report'),
                             'operational': ('state_event_service', 'send_periodic_operational_state_report'),
                             'context': ('context_service', 'send_periodic_context_report')}.items():
    def _wrap(svc, meth, kind):
        orig = getattr(svc, meth)

        def wrapper(periodic_states_list, mdib_version_group):
            for ps in periodic_states_list:
                Tr.ev('HandOver', kind, getattr(ps.mdib_version, 'rid', None), type(ps.mdib_version).__name__)
            return orig(periodic_states_list, mdib_version_group)
        setattr(svc, meth, wrapper)
    _wrap(getattr(w.provider.hosted_services, _svc), _meth, _kind)
_orig_wait = intervaltimer.IntervalTimer.wait_next_interval_begin


def _wait(self):
    r = _orig_wait(self)
    Tr.ev('Tick', round(self._period * 1000))
    return r


intervaltimer.IntervalTimer.wait_next_interval_begin = _wait
Tr.events, Tr.depth = [], {'mdib': 0, 'tr': 0}
Tr.thread = handler._periodic_reports_thread.ident
ok = gate.run(4)            # the start delay + 3 timer sleeps: 0.5 s, 1.0 s, 1.5 s (both periods due)
Tr.thread = None
if not ok or died:
    fail(f'the periodic thread did not complete its iterations: {died}')
evs = list(Tr.events)
iterations = []
for e in evs:
    if isinstance(e, tuple) and e[0] == 'Tick':
        iterations.append({'period': e[1], 'events': []})
    elif iterations:
        iterations[-1]['events'].append(e)
for it in iterations:
    labels = [e for e in it['events'] if isinstance(e, tuple) and e[0] == 'HandOver']
    if not labels:
        continue
    untagged = [e for e in labels if e[2] is None]
    if untagged:
        fail(f'periodic collector: the label of a PeriodicStates ({untagged[0][1]}) is a {untagged[0][3]}, not the result of a '
             f'traced read of mdib_version')
    rids = {e[2] for e in labels}
    if len(rids) != 1:
        fail(f'periodic collector: the PeriodicStates of one iteration are labelled by {len(rids)} different reads of mdib_version')
    seq, inside, sec = [], False, set()
    dropped = {'ReadVersion (not the label)': 0, 'ReadDescr': 0, 'ReadVersion outside the critical section (not the label)': 0}
    for e in it['events']:
        name = e if isinstance(e, str) else e[0]
        if name == 'ReadVersion' and e[1] not in rids:
            dropped['ReadVersion (not the label)'] += 1
            if not inside:
                dropped['ReadVersion outside the critical section (not the label)'] += 1
            continue
        if name == 'ReadDescr':
            dropped['ReadDescr'] += 1
            continue
        if name in ('HandOver', 'Send', 'Commit'):
            continue
        if name == 'AcqMdib':
            inside, sec = True, set()
            seq.append(name)
        elif name == 'RelMdib':
            # normal form of a critical section: Acq; [ReadContent]; [ReadVersion]; Rel (the order inside is immaterial)
            seq.extend(x for x in ('ReadContent', 'ReadVersion') if x in sec)
            seq.append(name)
            inside = False
        elif inside and name in ('ReadContent', 'ReadVersion'):
            sec.add(name)
        else:
            if not seq or seq[-1] != name:
                seq.append(name)
    key = f'periodic_collect_{it["period"]}'
    if key in out['programs'] and out['programs'][key] != seq:
        key += f'_v{len(out["programs"])}'
    out['programs'][key] = seq
    out['raw'][key] = [e if isinstance(e, str) else e[0] for e in it['events']]
    out['not_in_program'][key] = dropped
if not any(k.startswith('periodic_collect') for k in out['programs']):
    fail('no periodic collector iteration handed anything over')
w.stop()
sys.stdout = _stdout
print(json.dumps(out))
