"""C07 / C04(order): (a) trace the lock-step programs of the Get handlers and of a commit from the running code,
(b) replay interleavings deterministically: a committing transaction is injected at every point of a handler at
which the handler thread does not hold the MDIB lock, and the response is compared with the per-version snapshot
history."""
from __future__ import annotations

import json
import sys
import threading
import traceback
from decimal import Decimal

import mdibrun
mdibrun.preimport()
from world import World  # noqa: E402

from sdc11073 import multikey  # noqa: E402
from sdc11073.mdib import mdibbase  # noqa: E402

req = json.load(sys.stdin)


class Tracer:
    """records lock events of the handler thread and offers yield points to the scheduler"""

    def __init__(self):
        self.events = []          # (kind, depth_after)
        self.active_thread = None
        self.depth = {'mdib': 0, 'tr': 0}
        self.on_yield = None      # callable(index_of_yield_point)
        self.nyield = 0

    def is_active(self):
        return self.active_thread is not None and threading.get_ident() == self.active_thread

    def ev(self, kind):
        if not self.is_active():
            return
        self.events.append(kind)

    def yield_point(self):
        """called at depth 0 only: a concurrent writer could run here"""
        if not self.is_active():
            return
        n = self.nyield
        self.nyield += 1
        if self.on_yield:
            cb, self.on_yield_busy = self.on_yield, True
            self.active_thread, saved = None, self.active_thread     # the injected writer is not traced
            try:
                cb(n)
            finally:
                self.active_thread = saved


TR = Tracer()


class TracingLock:
    """wraps threading.RLock / Lock; reports only depth 0<->1 transitions of the traced thread"""

    def __init__(self, real, name):
        self._real = real
        self._name = name

    def acquire(self, *a, **k):
        if TR.is_active() and TR.depth[self._name] == 0 and TR.depth['mdib'] == 0:
            TR.yield_point()
        r = self._real.acquire(*a, **k)
        if TR.is_active():
            TR.depth[self._name] += 1
            if TR.depth[self._name] == 1:
                TR.ev('AcqMdib' if self._name == 'mdib' else 'AcqTr')
        return r

    def release(self):
        if TR.is_active():
            TR.depth[self._name] -= 1
            if TR.depth[self._name] == 0:
                TR.ev('RelMdib' if self._name == 'mdib' else 'RelTr')
        self._real.release()
        if TR.is_active() and TR.depth['mdib'] == 0 and self._name == 'mdib':
            TR.yield_point()

    __enter__ = acquire

    def __exit__(self, *a):
        self.release()


def install(pm):
    import threading as th
    pm.mdib_lock = TracingLock(th.RLock(), 'mdib')
    pm._tr_lock = TracingLock(th.Lock(), 'tr')
    cls = mdibbase.MdibBase
    orig_vg = cls.mdib_version_group

    def traced_vg(self):
        if self is pm and TR.is_active():
            if TR.depth['mdib'] == 0:
                TR.yield_point()
            TR.ev('ReadVersion')
        return orig_vg.fget(self)
    cls.mdib_version_group = property(traced_vg)
    # content reads: every access to the objects / indices of the provider's tables
    tables = (pm.descriptions, pm.states, pm.context_states)
    ids = {id(t) for t in tables}
    idx_ids = {id(ix) for t in tables for ix in t._idx_defs.values()}
    orig_objects = multikey.MultiKeyLookup.objects

    def traced_objects(self):
        if id(self) in ids and TR.is_active():
            TR.ev('ReadContent')
        return orig_objects.fget(self)
    multikey.MultiKeyLookup.objects = property(traced_objects)
    for name in ('get', 'get_one', '__getitem__'):
        orig = getattr(multikey.IndexDefinition, name)

        def mk(orig):
            def traced(self, *a, **k):
                if id(self) in idx_ids and TR.is_active():
                    TR.ev('ReadContent')
                return orig(self, *a, **k)
            return traced
        setattr(multikey.IndexDefinition, name, mk(orig))
    # commit + send of a transaction
    vcls = type(pm)
    for klass in vcls.__mro__:
        if 'mdib_version' in klass.__dict__ and isinstance(klass.__dict__['mdib_version'], property):
            break
    return cls


def normalise(events):
    """program normal form: per critical section  Acq; [ReadContent]; [ReadVersion]; Rel ; outside sections events are
    kept in order with duplicates collapsed"""
    out = []
    inside = False
    sec = set()
    for e in events:
        if e == 'AcqMdib':
            inside, sec = True, set()
            out.append(e)
        elif e == 'RelMdib':
            if 'ReadContent' in sec:
                out.append('ReadContent')
            if 'ReadVersion' in sec:
                out.append('ReadVersion')
            if 'Commit' in sec:
                out.insert(len(out) - ('ReadContent' in sec) - ('ReadVersion' in sec), 'Commit')
            inside = False
            out.append(e)
        elif inside and e in ('ReadContent', 'ReadVersion'):
            sec.add(e)
        elif inside:
            out.append(e)
        else:
            if not out or out[-1] != e:
                out.append(e)
    return out


def main():
    w = World()
    cons = w.add_consumer()
    pm = w.provider.mdib
    pm.pre_commit_handler = None
    pm.post_commit_handler = None
    install(pm)
    canon = mdibrun.Canon()
    metric = req.get('metric', '0x34F00100')
    # a context state so that GetContextStates has content
    with pm.context_state_transaction() as tr:
        st = tr.mk_context_state('PC.mds0', 'p1', set_associated=True)
        st.CoreData.Givenname = 'Ann'

    history = {}     # version -> {handle: (StateVersion, payload)}

    GEN = 'verif_gen_metric'     # a descriptor that the 'toggle' writer creates / removes

    def record():
        history[pm.mdib_version] = {
            metric: pm.states.descriptor_handle.get_one(metric).StateVersion,
            'p1': pm.context_states.handle.get_one('p1').StateVersion,
            'descr': pm.descriptions.handle.get_one(metric).DescriptorVersion,
            'gen_exists': pm.descriptions.handle.get_one(GEN, allow_none=True) is not None,
            # content (semantic value hashes): what a response that states this version may show
            'c:' + metric: canon.payload(pm.states.descriptor_handle.get_one(metric)),
            'c:p1': canon.payload(pm.context_states.handle.get_one('p1')),
            'c:descr': canon.payload(pm.descriptions.handle.get_one(metric))}
    record()
    counter = [100]

    def writer(kind):
        counter[0] += 1
        if kind == 'metric':
            with pm.metric_state_transaction() as tr:
                s = tr.get_state(metric)
                if s.MetricValue is None:
                    s.mk_metric_value()
                s.MetricValue.Value = Decimal(counter[0])
        elif kind == 'context':
            with pm.context_state_transaction() as tr:
                s = tr.get_context_state('p1')
                s.CoreData.Givenname = f'Ann{counter[0]}'
        elif kind == 'toggle':
            import copy as _copy
            with pm.descriptor_transaction() as tr:
                if pm.descriptions.handle.get_one(GEN, allow_none=True) is None:
                    tpl = pm.descriptions.handle.get_one(metric)
                    d = _copy.deepcopy(tpl)
                    d.Handle = GEN
                    d.DescriptorVersion = 0
                    d.set_source_mds(None)
                    tr.add_descriptor(d, state_container=pm.data_model.mk_state_container(d))
                else:
                    tr.remove_descriptor(GEN)
        else:
            with pm.descriptor_transaction() as tr:
                d = tr.get_descriptor(metric)
                d.SafetyClassification = list(pm.data_model.pm_types.SafetyClassification)[counter[0] % 4]
        record()

    get = cons.get_service_client
    ctxc = cons.context_service_client
    handlers = {
        'GetMdib': lambda: get.get_mdib(),
        'GetMdState': lambda: get.get_md_state([metric]),
        'GetMdStateAll': lambda: get.get_md_state([]),
        'GetMdDescription': lambda: get.get_md_description([metric]),
        'GetMdDescriptionAll': lambda: get.get_md_description([]),
        # a handle that is created / removed concurrently: the answer must select by the table of the stated version
        'GetMdDescriptionGen': lambda: get.get_md_description([GEN]),
        'GetMdStateGen': lambda: get.get_md_state([GEN]),
        'GetContextStates': lambda: ctxc.get_context_states(['p1']),
        'GetContextStatesAll': lambda: ctxc.get_context_states([]),
    }

    def traced_call(fn, on_yield=None):
        """run fn (a consumer request) with the provider's handler traced; the handler runs in this thread because the
        loop-back transport is synchronous"""
        TR.events, TR.nyield, TR.on_yield = [], 0, on_yield
        TR.depth = {'mdib': 0, 'tr': 0}
        TR.active_thread = threading.get_ident()
        try:
            return fn()
        finally:
            TR.active_thread = None
            TR.on_yield = None

    out = {'programs': {}, 'schedules': []}
    # ---------------- (a) programs
    for name, fn in handlers.items():
        traced_call(fn)
        out['programs'][name] = {'raw': list(TR.events), 'program': normalise(TR.events), 'yield_points': TR.nyield}
    # commit program: trace a transaction; Commit = version change, Send = notification handed to the transport
    n0 = len(w.net.log)
    orig_setattr = None
    TR.events, TR.nyield, TR.on_yield = [], 0, None
    TR.depth = {'mdib': 0, 'tr': 0}
    sent_at = []
    old_hook = w.net.hook

    def hook(ex):
        if ex.method == 'POST' and ex.netloc == cons._verif_server.netloc:
            TR.ev('Send')
        return old_hook(ex) if old_hook else None
    w.net.hook = hook
    v_before = pm.mdib_version
    pcls = type(pm)
    # mdib_version is a plain attribute: detect the commit by polling inside ReadContent-free code is not possible, so wrap
    # process_transaction of the transaction classes instead
    from sdc11073.mdib import transactions as trmod
    for cname in ('MetricStateTransaction',):
        kl = getattr(trmod, cname)
        orig_pt = kl.process_transaction

        def pt(self, *a, _orig=orig_pt, **k):
            r = _orig(self, *a, **k)
            TR.ev('Commit')
            return r
        kl.process_transaction = pt
    TR.active_thread = threading.get_ident()
    try:
        writer('metric')
    finally:
        TR.active_thread = None
        w.net.hook = old_hook
    evs = [e for e in TR.events if e not in ('ReadContent', 'ReadVersion')]
    # collapse several Send (one per report / subscriber) into one
    prog = []
    for e in evs:
        if not prog or prog[-1] != e:
            prog.append(e)
    out['programs']['commit'] = {'raw': list(TR.events), 'program': prog}

    if req.get('programs_only'):
        w.stop()
        print(json.dumps(out))
        return
    def observe(name, res):
        v = res.mdib_version_group.mdib_version
        seen = {}
        if name.startswith('GetMdib'):
            _, states = res.result
            for s in states:
                if getattr(s, 'DescriptorHandle', None) == metric and not s.is_context_state:
                    seen[metric] = s.StateVersion
                    seen['c:' + metric] = canon.payload(s)
                elif s.is_context_state and s.Handle == 'p1':
                    seen['p1'] = s.StateVersion        # GetMdib carries the context states too
                    seen['c:p1'] = canon.payload(s)
            descrs = res.result[0]
            for d in descrs:
                if d.Handle == metric:
                    seen['descr'] = d.DescriptorVersion
                    seen['c:descr'] = canon.payload(d)
        elif name == 'GetMdStateGen':
            seen['gen_exists'] = any(s.DescriptorHandle == GEN for s in res.result.MdState.State)
        elif name.startswith('GetMdState'):
            for s in res.result.MdState.State:
                if s.DescriptorHandle == metric and not s.is_context_state:
                    seen[metric] = s.StateVersion
                    seen['c:' + metric] = canon.payload(s)
        elif name.startswith('GetContextStates'):
            for s in res.result.ContextState:
                if s.Handle == 'p1':
                    seen['p1'] = s.StateVersion
                    seen['c:p1'] = canon.payload(s)
        elif name.startswith('GetMdDescription'):
            for d in res.result.MdDescription.Mds if hasattr(res.result, 'MdDescription') else []:
                pass
            node = res.p_msg.msg_node if hasattr(res, 'p_msg') else None
            if name == 'GetMdDescriptionGen':
                # "returns either all descriptors or none": all iff the requested handle exists at that version
                seen['gen_exists'] = node is not None and any(el.get('Handle') == metric for el in node.iter())
            elif node is not None:
                for el in node.iter():
                    if el.get('Handle') == metric and el.get('DescriptorVersion') is not None:
                        seen['descr'] = int(el.get('DescriptorVersion'))
        return v, seen

    # ---------------- (b) deterministic interleavings: inject a commit at every depth-0 point of every handler
    for name, fn in handlers.items():
        npoints = out['programs'][name]['yield_points']
        for point in range(npoints):
            for kind in req.get('writer_kinds', ['metric', 'context', 'descr']) + (['toggle', 'toggle'] if name.endswith('Gen') else []):
                def on_yield(n, point=point, kind=kind):
                    if n == point:
                        t = threading.Thread(target=writer, args=(kind,))
                        t.start()
                        t.join(20)
                        if t.is_alive():
                            raise RuntimeError('injected writer blocked: the handler holds a lock at a depth-0 point')
                try:
                    res = traced_call(fn, on_yield)
                except Exception:  # noqa: BLE001
                    out['schedules'].append({'handler': name, 'point': point, 'writer': kind,
                                             'error': traceback.format_exc()[-400:]})
                    continue
                v, seen = observe(name, res)
                want = history.get(v, {})
                bad = {k: [seen[k], want.get(k)] for k in seen if want.get(k) != seen[k]}
                out['schedules'].append({'handler': name, 'point': point, 'writer': kind, 'response_version': v,
                                         'seen': seen, 'inconsistent': bad})
    # ---------------- (c) objects the application still holds are written WITHOUT a transaction: no Get response may
    # show anything but the content of the version it states
    kept = {}
    with pm.descriptor_transaction() as tr:
        kept['descr'] = tr.get_descriptor(metric)
        kept['descr'].SafetyClassification = list(pm.data_model.pm_types.SafetyClassification)[1]
    record()
    with pm.metric_state_transaction() as tr:
        kept['state'] = tr.get_state(metric)
        kept['state'].MetricValue.Value = Decimal(4711)
    record()
    with pm.context_state_transaction() as tr:
        kept['ctx'] = tr.get_context_state('p1')
        kept['ctx'].CoreData.Familyname = 'Kept'
    record()
    ent_ctx = pm.entities.by_handle('PC.mds0')
    ent_m = pm.entities.by_handle(metric)

    def nested_descr(d):
        if d.Unit is not None:
            d.Unit.Code = (d.Unit.Code or '') + 'x'
        if d.Type is not None:
            d.Type.Code = (d.Type.Code or '') + 'x'
        for r in list(getattr(d, 'TechnicalRange', None) or []):
            r.Upper = Decimal(12345)

    mutations = [('descriptor object kept from get_descriptor', lambda: nested_descr(kept['descr'])),
                 ('state object kept from get_state', lambda: setattr(kept['state'].MetricValue, 'Value', Decimal(99999))),
                 ('context state object kept from get_context_state', lambda: setattr(kept['ctx'].CoreData, 'Givenname', 'Written')),
                 ('context state of an entity from entities.by_handle', lambda: setattr(ent_ctx.states['p1'].CoreData, 'Givenname', 'Entity')),
                 ('state of an entity from entities.by_handle', lambda: setattr(ent_m.state.MetricValue, 'Value', Decimal(88888))),
                 ('descriptor of an entity from entities.by_handle', lambda: nested_descr(ent_m.descriptor))]
    for mname, mut in mutations:
        try:
            mut()
        except Exception:  # noqa: BLE001
            out['schedules'].append({'handler': '-', 'point': -1, 'writer': 'no-transaction write: ' + mname,
                                     'error': traceback.format_exc()[-300:]})
            continue
        for name, fn in handlers.items():
            try:
                res = traced_call(fn)
            except Exception:  # noqa: BLE001
                out['schedules'].append({'handler': name, 'point': -1, 'writer': 'no-transaction write: ' + mname,
                                         'error': traceback.format_exc()[-400:]})
                continue
            v, seen = observe(name, res)
            want = history.get(v, {})
            bad = {k: [seen[k], want.get(k)] for k in seen if want.get(k) != seen[k]}
            out['schedules'].append({'handler': name, 'point': -1, 'writer': 'no-transaction write: ' + mname,
                                     'response_version': v, 'seen': seen, 'inconsistent': bad})
    w.stop()
    print(json.dumps(out))


main()
