"""C04 stream `slow-subscriber` (async subscriptions manager): one subscriber's HTTP round trip for a report takes
several seconds; the commit must not hand the next transaction's report to that subscriber before the earlier one has
arrived, and every subscriber sees non-decreasing MdibVersions.  Real time is used (the asyncio loop of the manager
cannot be put on the virtual clock): `delay` seconds per case."""
import asyncio
import json
import re
import sys
import time as _time
from decimal import Decimal

import mdibrun
mdibrun.preimport()
import world  # noqa: E402
from world import LoopClient, World  # noqa: E402

from sdc11073.provider import providerimpl as pimpl  # noqa: E402

req = json.load(sys.stdin)
DELAY = float(req.get('delay', 4.0))
slow = {'netloc': None, 'armed': False, 'log': []}


class AsyncSlowClient(LoopClient):
    """stands in for SoapClientAsync (aiohttp): the loop-back exchange happens after an awaited delay"""

    async def async_post_message_to(self, path, created_message, msg='', request_manipulator=None, validate=True):
        if slow['armed'] and self._netloc == slow['netloc']:
            slow['armed'] = False
            slow['log'].append(['delayed', _time.monotonic()])
            await asyncio.sleep(DELAY)
        return self.post_message_to(path, created_message, msg=msg, request_manipulator=request_manipulator,
                                    validate=validate)

    async def async_close(self):
        self.close()


_orig = pimpl.provider_components_async_factory


def factory():
    c = _orig()
    c.soap_client_class = AsyncSlowClient
    return c


pimpl.provider_components_async_factory = factory
w = World(async_subscriptions=True)
cons1 = w.add_consumer()
cons2 = w.add_consumer()
pm = w.provider.mdib
pm.pre_commit_handler = None
pm.post_commit_handler = None
h = req['handle']
slow['netloc'] = cons1._verif_server.netloc


def tx(v):
    with pm.metric_state_transaction() as tr:
        s = tr.get_state(h)
        if s.MetricValue is None:
            s.mk_metric_value()
        s.MetricValue.Value = Decimal(v)
    return pm.mdib_version


def arrivals(netloc, start):
    seq = []
    for ex in w.net.log[start:]:
        if ex.netloc == netloc and ex.method == 'POST':
            m = re.search(rb'MdibVersion="(\d+)"', ex.decoded_body())
            if m:
                seq.append(int(m.group(1)))
    return seq


tx(1)                       # warm-up: connections exist
n0 = len(w.net.log)
slow['armed'] = True
t0 = _time.monotonic()
v1 = tx(2)
t1 = _time.monotonic()
at_return = {c._verif_server.netloc: arrivals(c._verif_server.netloc, n0) for c in (cons1, cons2)}
v2 = tx(3)
v3 = tx(4)
_time.sleep(max(0.0, DELAY - (_time.monotonic() - t0)) + 0.5)       # let a late delivery arrive
out = {'delay': DELAY, 'commit_blocked_s': round(t1 - t0, 2), 'versions': [v1, v2, v3],
       'arrived_when_commit_returned': at_return,
       'arrival_order': {c._verif_server.netloc: arrivals(c._verif_server.netloc, n0) for c in (cons1, cons2)},
       'slow_subscriber': slow['netloc'], 'consumer_versions': [c.mdib.mdib_version if getattr(c, 'mdib', None) else None
                                                                 for c in (cons1, cons2)]}
w.stop()
print(json.dumps(out))
