"""Implementation side of C05.

stream `classes`: for every data-type / container class: generated instance -> as_etree_node / mk_node -> bytes ->
parse -> from_node -> canonical value equal?; re-serialise -> identical bytes?; bytes valid against the bundled XSD
(resolved through sdc11073.schema_resolver.SchemaResolver)?; absent members read back as implied/default values that
are not the class-level default object?

stream `props`: single property descriptors driven directly (update_xml_value / get_py_value_from_node) on small
element trees; the trees and values are returned in the vocabulary of coq/XmlStruct/Model.v.

stdin : {"stream": "classes", "seed": n, "per_class": k, "only": [keys]?} | {"stream": "props", "seed": n, "count": k}
stdout: {"results": ...}"""
import json
import random
import sys
import traceback
from io import StringIO

from lxml import etree

import xs_gen as G
import xs_lib as X
from sdc11073.namespaces import PrefixesEnum
from sdc11073.schema_resolver import SchemaResolver
from sdc11073.xml_types import xml_structure as xs

req = json.load(sys.stdin)


class _FrozenTime:
    """xml_structure reads time.time() for the write-only current-timestamp attribute (ClockState.DateAndTime)"""

    @staticmethod
    def time():
        return 1790135069.25


xs.time = _FrozenTime
XS = '{http://www.w3.org/2001/XMLSchema}'


# ------------------------------------------------------------------------------------------------ XSD
def load_schema_index():
    types, elems = {}, {}
    for e in PrefixesEnum:
        f = e.value.local_schema_file
        if f is None:
            continue
        root = etree.parse(str(f)).getroot()
        tns = root.get('targetNamespace')
        for ct in root.findall(XS + 'complexType'):
            types[(tns, ct.get('name'))] = ct.get('abstract') == 'true'
        for el in root.findall(XS + 'element'):
            elems[(tns, el.get('name'))] = el.get('type')
    return types, elems


def mk_validator(types):
    """the library's combined schema (as schema_resolver.mk_schema_validator builds it) plus one global element per
    named complex type, so that a value of that type can be validated on its own"""
    specs = [e.value for e in PrefixesEnum]
    parser = etree.XMLParser(resolve_entities=True)
    parser.resolvers.add(SchemaResolver(specs))
    tmp = StringIO()
    tmp.write('<?xml version="1.0" encoding="UTF-8"?>')
    prefixes = {e.value.namespace: e.value.prefix for e in PrefixesEnum}
    decl = ' '.join(f'xmlns:{p}="{ns}"' for ns, p in prefixes.items() if p not in ('xsd', 'xml'))
    tmp.write(f'<xsd:schema xmlns:xsd="http://www.w3.org/2001/XMLSchema" {decl} elementFormDefault="qualified">\n')
    for entry in specs:
        if entry.schema_location_url is not None and entry.prefix != 'xsd':
            tmp.write(f'<xsd:import namespace="{entry.namespace}" schemaLocation="{entry.schema_location_url}"/>\n')
    for (ns, name), abstract in sorted(types.items()):
        if not abstract and ns in prefixes:
            tmp.write(f'<xsd:element name="t__{prefixes[ns]}__{name}" type="{prefixes[ns]}:{name}"/>\n')
    tmp.write('</xsd:schema>')
    tree = etree.fromstring(tmp.getvalue().encode('utf-8'), parser=parser)
    return etree.XMLSchema(etree=tree), prefixes


def root_tag(cls, types, elems, prefixes):
    """(tag, validate?) for a top-level instance of cls"""
    nt = getattr(cls, 'NODETYPE', None)
    if nt is not None and nt.namespace is not None:
        key = (nt.namespace, nt.localname)
        if key in elems:
            return nt, True
        if key in types:
            return f't__{prefixes[nt.namespace]}__{nt.localname}', not types[key]
    return etree.QName(X.VERIF_NS, 'Root'), False


# ------------------------------------------------------------------------------------------------ classes
def absent_ok(obj, obj2, out, path='', depth=0):
    """members absent in the XML read back as the implied / default value, never as the class-level default object"""
    if depth > 6 or not X.is_struct(obj2) or type(obj) is not type(obj2):
        return
    for (name, p), raw, raw2 in zip(X.class_props(type(obj2)), X.raw_fields(obj), X.raw_fields(obj2)):
        d = getattr(p, '_default_py_value', None)
        if raw2 is not None and d is not None and raw2 is d and X.is_mutable(d):
            out.append(('absent member is the class-level default object', f'{path}.{name}'))
        if raw is None and not isinstance(p, (xs._ElementListProperty, xs._AttributeListBase, xs.ExtensionNodeProperty)):  # noqa: SLF001
            seen = getattr(obj2, name)
            want = p._implied_py_value if p._implied_py_value is not None else d  # noqa: SLF001
            if X.canon(seen) != X.canon(want):
                out.append(('absent member is not the implied/default value', f'{path}.{name}'))
        if X.is_struct(raw) and X.is_struct(raw2):
            absent_ok(raw, raw2, out, f'{path}.{name}', depth + 1)
        elif isinstance(raw, list) and isinstance(raw2, list):
            for i, (a, b) in enumerate(zip(raw, raw2)):
                if X.is_struct(a):
                    absent_ok(a, b, out, f'{path}.{name}[{i}]', depth + 1)


def short(b, n=700):
    s = b.decode('utf-8', 'replace') if isinstance(b, bytes) else str(b)
    return s if len(s) <= n else s[:n] + '...'


def run_classes():
    rng = random.Random(req['seed'])
    types, elems = load_schema_index()
    schema, prefixes = mk_validator(types)
    results = {}
    stats = {}
    for cls in X.all_classes():
        key = X.class_key(cls)
        if req.get('only') and key not in req['only']:
            continue
        if key in X.NOT_STANDALONE or key.startswith('soapenvelope.'):
            continue
        res = {'n': 0, 'ok': 0, 'validated': 0, 'fail': [], 'delegated_c18': 0}
        results[key] = res
        try:
            X.class_props(cls)
        except X.BrokenClass as ex:
            res['fail'].append({'clause': 'class cannot be instantiated', 'member': '_props', 'detail': str(ex)})
            continue
        tag, validate = root_tag(cls, types, elems, prefixes)
        for i in range(req['per_class']):
            gen = G.Gen(rng, max_depth=req.get("max_depth", 3))
            res['n'] += 1
            stage = 'generate'
            try:
                obj = gen.instance(cls, full=(i == 0))
                stage = 'write'
                node = X.serialise(obj, tag)
                b1 = etree.tostring(node)
                stage = 'read'
                obj2 = X.parse(type(obj), etree.fromstring(b1))
            except Exception as ex:  # noqa: BLE001
                res['fail'].append({'clause': f'{stage} raises {type(ex).__name__}', 'member': last_member(ex),
                                    'detail': short(traceback.format_exc()[-900:], 900)})
                for k, v in gen.stats.items():
                    stats[k] = stats.get(k, 0) + v
                continue
            for k, v in gen.stats.items():
                stats[k] = stats.get(k, 0) + v
            bad = False
            c1, c2 = X.canon(obj), X.canon(obj2)
            if c1 != c2:
                path, a, b = X.canon_diff(c1, c2)
                res['fail'].append({'clause': 'value read back differs', 'member': path, 'detail':
                                    {'written': short(str(a), 200), 'read': short(str(b), 200), 'xml': short(b1)}})
                bad = True
            else:
                try:
                    b2 = etree.tostring(X.serialise(obj2, tag))
                except Exception as ex:  # noqa: BLE001
                    b2 = f'raises {type(ex).__name__}: {ex}'.encode()
                if b2 != b1:
                    res['fail'].append({'clause': 'second write differs', 'member': first_diff_tag(b1, b2),
                                        'detail': {'first': short(b1), 'second': short(b2)}})
                    bad = True
            out = []
            absent_ok(obj, obj2, out)
            for clause, path in out:
                res['fail'].append({'clause': clause, 'member': path, 'detail': {'xml': short(b1)}})
                bad = True
            if validate:
                res['validated'] += 1
                doc = etree.fromstring(b1)
                if not schema.validate(doc):
                    err = schema.error_log[0]
                    res['fail'].append({'clause': 'not schema-valid', 'member': xsd_member(err.message),
                                        'detail': {'error': err.message[:400], 'xml': short(b1, 900)}})
                    bad = True
            res['ok'] += not bad
    return {'results': results, 'stats': stats, 'schema_types': len(types), 'schema_elements': len(elems)}


def last_member(ex):
    import re
    m = re.findall(r'In (\w+)\.(\w+),', str(ex))
    return '.'.join(m[-1]) if m else type(ex).__name__


def xsd_member(msg):
    import re
    m = re.search(r"Element '(\{[^}]*\})?([^']+)'(?:, attribute '([^']+)')?", msg)
    kind = re.sub(r"'[^']*'", "'..'", msg.split(': ', 1)[-1])[:90]
    return (f'{m.group(2)}@{m.group(3)}' if m and m.group(3) else (m.group(2) if m else '?')) + ' :: ' + kind


def first_diff_tag(b1, b2):
    i = next((k for k, (x, y) in enumerate(zip(b1, b2)) if x != y), min(len(b1), len(b2)))
    j = b1.rfind(b'<', 0, i + 1)
    return short(b1[j:j + 40], 40)


if req['stream'] == 'classes':
    print(json.dumps(run_classes()))
