"""Implementation side of C05.

stream `classes`: for every data-type / container class: generated instance -> as_etree_node / mk_node -> bytes ->
parse -> from_node -> canonical value equal?; re-serialise -> identical bytes?; bytes valid against the bundled XSD
(resolved through sdc11073.schema_resolver.SchemaResolver)?; absent members read back as implied/default values that
are not the class-level default object?

stream `props`: single property descriptors driven directly (update_xml_value / get_py_value_from_node) on small
element trees; the trees and values are returned in the vocabulary of coq/XmlStruct/Model.v.

stdin : {"stream": "classes", "seed": n, "per_class": k, "only": [keys]?} | {"stream": "props", "seed": n, "count": k}
stdout: {"results": ...}"""
import json
import random
import sys
import traceback
from io import StringIO

from lxml import etree

import xs_gen as G
import xs_lib as X
from xs_lib import min_len_flag
from sdc11073.namespaces import PrefixesEnum
from sdc11073.schema_resolver import SchemaResolver
from sdc11073.xml_types import xml_structure as xs

req = json.load(sys.stdin)


class _FrozenTime:
    """xml_structure reads time.time() for the write-only current-timestamp attribute (ClockState.DateAndTime)"""

    @staticmethod
    def time():
        return 1790135069.25


xs.time = _FrozenTime
XS = '{http://www.w3.org/2001/XMLSchema}'


# ------------------------------------------------------------------------------------------------ XSD
def load_schema_index():
    types, elems = {}, {}
    for e in PrefixesEnum:
        f = e.value.local_schema_file
        if f is None:
            continue
        root = etree.parse(str(f)).getroot()
        tns = root.get('targetNamespace')
        for ct in root.findall(XS + 'complexType'):
            types[(tns, ct.get('name'))] = ct.get('abstract') == 'true'
        for el in root.findall(XS + 'element'):
            elems[(tns, el.get('name'))] = el.get('type')
    return types, elems


def mk_validator(types):
    """the library's combined schema (as schema_resolver.mk_schema_validator builds it) plus one global element per
    named complex type, so that a value of that type can be validated on its own"""
    specs = [e.value for e in PrefixesEnum]
    parser = etree.XMLParser(resolve_entities=True)
    parser.resolvers.add(SchemaResolver(specs))
    tmp = StringIO()
    tmp.write('<?xml version="1.0" encoding="UTF-8"?>')
    prefixes = {e.value.namespace: e.value.prefix for e in PrefixesEnum}
    decl = ' '.join(f'xmlns:{p}="{ns}"' for ns, p in prefixes.items() if p not in ('xsd', 'xml'))
    tmp.write(f'<xsd:schema xmlns:xsd="http://www.w3.org/2001/XMLSchema" {decl} elementFormDefault="qualified">\n')
    for entry in specs:
        if entry.schema_location_url is not None and entry.prefix != 'xsd':
            tmp.write(f'<xsd:import namespace="{entry.namespace}" schemaLocation="{entry.schema_location_url}"/>\n')
    for (ns, name), abstract in sorted(types.items()):
        if not abstract and ns in prefixes:
            tmp.write(f'<xsd:element name="t__{prefixes[ns]}__{name}" type="{prefixes[ns]}:{name}"/>\n')
    tmp.write('</xsd:schema>')
    tree = etree.fromstring(tmp.getvalue().encode('utf-8'), parser=parser)
    return etree.XMLSchema(etree=tree), prefixes


def root_tag(cls, types, elems, prefixes):
    """(tag, validate?) for a top-level instance of cls"""
    nt = getattr(cls, 'NODETYPE', None)
    if nt is not None and nt.namespace is not None:
        key = (nt.namespace, nt.localname)
        if key in elems:
            return nt, True
        if key in types:
            return f't__{prefixes[nt.namespace]}__{nt.localname}', not types[key]
    return etree.QName(X.VERIF_NS, 'Root'), False


# ------------------------------------------------------------------------------------------------ classes
def absent_ok(obj, obj2, out, path='', depth=0):
    """members absent in the XML read back as the implied / default value, never as the class-level default object"""
    if depth > 6 or not X.is_struct(obj2) or type(obj) is not type(obj2):
        return
    for (name, p), raw, raw2 in zip(X.class_props(type(obj2)), X.raw_fields(obj), X.raw_fields(obj2)):
        d = getattr(p, '_default_py_value', None)
        if raw2 is not None and d is not None and raw2 is d and X.is_mutable(d):
            out.append(('absent member is the class-level default object', f'{path}.{name}'))
        if raw is None and not isinstance(p, (xs._ElementListProperty, xs._AttributeListBase, xs.ExtensionNodeProperty)):  # noqa: SLF001
            seen = getattr(obj2, name)
            want = p._implied_py_value if p._implied_py_value is not None else d  # noqa: SLF001
            if X.canon(seen) != X.canon(want):
                out.append(('absent member is not the implied/default value', f'{path}.{name}'))
        if X.is_struct(raw) and X.is_struct(raw2):
            absent_ok(raw, raw2, out, f'{path}.{name}', depth + 1)
        elif isinstance(raw, list) and isinstance(raw2, list):
            for i, (a, b) in enumerate(zip(raw, raw2)):
                if X.is_struct(a):
                    absent_ok(a, b, out, f'{path}.{name}[{i}]', depth + 1)


def short(b, n=700):
    s = b.decode('utf-8', 'replace') if isinstance(b, bytes) else str(b)
    return s if len(s) <= n else s[:n] + '...'


def run_classes():
    rng = random.Random(req['seed'])
    types, elems = load_schema_index()
    schema, prefixes = mk_validator(types)
    results = {}
    stats = {}
    digests = []
    for cls in X.all_classes():
        key = X.class_key(cls)
        if req.get('only') and key not in req['only']:
            continue
        if key in X.NOT_STANDALONE or key.startswith('soapenvelope.'):
            continue
        res = {'n': 0, 'ok': 0, 'validated': 0, 'fail': [], 'delegated_c18': 0}
        results[key] = res
        try:
            X.class_props(cls)
        except X.BrokenClass as ex:
            res['fail'].append({'clause': 'class cannot be instantiated', 'member': '_props', 'detail': str(ex)})
            continue
        tag, validate = root_tag(cls, types, elems, prefixes)
        for i in range(req['per_class']):
            gen = G.Gen(rng, max_depth=req.get("max_depth", 3))
            res['n'] += 1
            stage = 'generate'
            try:
                obj = gen.instance(cls, full=(i == 0))
                stage = 'write'
                node = X.serialise(obj, tag)
                b1 = etree.tostring(node)
                stage = 'read'
                obj2 = X.parse(type(obj), etree.fromstring(b1))
            except Exception as ex:  # noqa: BLE001
                res['fail'].append({'clause': f'{stage} raises {type(ex).__name__}', 'member': last_member(ex),
                                    'detail': short(traceback.format_exc()[-900:], 900)})
                for k, v in gen.stats.items():
                    stats[k] = stats.get(k, 0) + v
                continue
            for k, v in gen.stats.items():
                stats[k] = stats.get(k, 0) + v
            bad = False
            c1, c2 = X.canon(obj), X.canon(obj2)
            if c1 != c2:
                path, a, b = X.canon_diff(c1, c2)
                res['fail'].append({'clause': 'value read back differs', 'member': path, 'detail':
                                    {'written': short(str(a), 200), 'read': short(str(b), 200), 'xml': short(b1)}})
                bad = True
            else:
                try:
                    b2 = etree.tostring(X.serialise(obj2, tag))
                except Exception as ex:  # noqa: BLE001
                    b2 = f'raises {type(ex).__name__}: {ex}'.encode()
                if b2 != b1:
                    res['fail'].append({'clause': 'second write differs', 'member': first_diff_tag(b1, b2),
                                        'detail': {'first': short(b1), 'second': short(b2)}})
                    bad = True
            out = []
            absent_ok(obj, obj2, out)
            for clause, path in out:
                res['fail'].append({'clause': clause, 'member': path, 'detail': {'xml': short(b1)}})
                bad = True
            if validate:
                res['validated'] += 1
                doc = etree.fromstring(b1)
                if not schema.validate(doc):
                    err = schema.error_log[0]
                    res['fail'].append({'clause': 'not schema-valid', 'member': xsd_member(err.message),
                                        'detail': {'error': err.message[:400], 'xml': short(b1, 900)}})
                    bad = True
            res['ok'] += not bad
            if not bad:
                import hashlib
                digests.append(hashlib.sha1(b1).hexdigest()[:10])
    return {'results': results, 'stats': stats, 'digests': digests, 'schema_types': len(types), 'schema_elements': len(elems)}


def last_member(ex):
    import re
    m = re.findall(r'In (\w+)\.(\w+),', str(ex))
    return '.'.join(m[-1]) if m else type(ex).__name__


def xsd_member(msg):
    import re
    m = re.search(r"Element '(\{[^}]*\})?([^']+)'(?:, attribute '([^']+)')?", msg)
    kind = re.sub(r"'[^']*'", "'..'", msg.split(': ', 1)[-1])[:90]
    return (f'{m.group(2)}@{m.group(3)}' if m and m.group(3) else (m.group(2) if m else '?')) + ' :: ' + kind


def first_diff_tag(b1, b2):
    i = next((k for k, (x, y) in enumerate(zip(b1, b2)) if x != y), min(len(b1), len(b2)))
    j = b1.rfind(b'<', 0, i + 1)
    return short(b1[j:j + 40], 40)


if req['stream'] == 'classes':
    print(json.dumps(run_classes()))


# ------------------------------------------------------------------------------------------------ props
KIND_OF = None


def load_kind_table():
    """descriptor class name -> model kind: the table of the translator (single source)"""
    import importlib.util
    import io
    spec = importlib.util.spec_from_file_location('gen_schema_tab', __file__.replace('c05_impl.py', 'gen_schema.py'))
    src = open(spec.origin).read()
    head = src[:src.index('names = {}')]
    ns = {}
    stdin = sys.stdin
    sys.stdin = io.StringIO('{}')
    try:
        exec(compile(head, spec.origin, 'exec'), ns)  # noqa: S102  (KIND table + conv_of only; no output produced)
    finally:
        sys.stdin = stdin
    return ns['KIND'], ns['conv_of']


class PropCase:
    def __init__(self, rng, gen, cids):
        self.rng, self.gen, self.cids = rng, gen, cids
        self.names = {}
        self.atoms = {'': 0}
        self.tab = []          # [(VStruct literal, tree literal)]
        self.nested = []       # [(canonical dump, uid)]

    def nid(self, s):
        if s == X.xs.QN_TYPE.text:
            return 0
        if s not in self.names:
            self.names[s] = len(self.names) + 1
        return self.names[s]

    def atom(self, s):
        if s is None:
            s = ''
        if s not in self.atoms:
            self.atoms[s] = len(self.atoms)
        return self.atoms[s]

    # ---- xml -> model tree
    def qtext(self, el, text):
        """canonical form of a prefix:local text"""
        try:
            from sdc11073.namespaces import text_to_qname
            return text_to_qname(text, el.nsmap).text
        except Exception:  # noqa: BLE001
            return text

    def tree(self, el, own=None):
        """own = (slot kind, name, mode) of the property under test: how ITS slot is tokenised"""
        attrs = []
        for k, v in el.attrib.items():
            if k == X.xs.QN_TYPE.text:
                cls = self.class_of_type(el, v)
                attrs.append((0, [cls]))
                continue
            if own and own[0] == 'a' and own[1] == k:
                attrs.append((self.nid('@' + k), self.tok(el, v, own[2]) if own[2] != 'scalar' else [self.atom(v)]))
            else:
                attrs.append((self.nid('@' + k), [self.atom(v)]))
        text = el.text
        if own and own[0] == 't':
            toks = self.tok(el, text, own[2]) if text not in (None, '') else []
        else:
            toks = [self.atom(text)] if text not in (None, '') else []
        kids = []
        for ch in el:
            if not isinstance(ch.tag, str):
                continue
            sub_own = ('t', None, own[2]) if own and own[0] == 'e' and own[1] == ch.tag else None
            kids.append(self.tree(ch, sub_own))
        return ['N', self.nid(el.tag), attrs, toks or None, kids]

    def tok(self, el, text, mode):
        if mode == 'words':
            return [self.atom(w) for w in text.split(' ') if w]
        if mode == 'wsplit':
            return [self.atom(w) for w in text.split()]
        if mode == 'qwords':
            return [self.atom(self.qtext(el, w)) for w in text.split()]
        if mode == 'qname':
            return [self.atom(self.qtext(el, text))]
        if mode == 'curts':
            return [1]
        return [self.atom(text)] if text != '' else []

    def class_of_type(self, el, text):
        from sdc11073.namespaces import text_to_qname
        qn = text_to_qname(text, el.nsmap)
        for key, cid in self.cids.items():
            c = CLASS_BY_KEY.get(key)
            if c is not None and getattr(c, 'NODETYPE', None) == qn and not key.startswith('soapenvelope'):
                return cid
        return 999999


CLASS_BY_KEY = {X.class_key(c): c for c in X.all_classes()}


def lit_tree(t):
    _, tag, attrs, text, kids = t
    a = '; '.join(f'({n}%N, [' + '; '.join(str(z) for z in v) + '])' for n, v in attrs)
    x = 'None' if text is None else '(Some [' + '; '.join(str(z) for z in text) + '])'
    return f'(Node {tag}%N [{a}] {x} [' + '; '.join(lit_tree(k) for k in kids) + '])'


def run_props():
    rng = random.Random(req['seed'])
    kind_tab, conv_of = load_kind_table()
    classes = X.all_classes()
    cids = {X.class_key(c): i + 1 for i, c in enumerate(classes)}
    decls = []
    for c in classes:
        if X.class_key(c).startswith('soapenvelope.') or c is X.mex_types.Metadata:
            continue        # SOAP envelope: not in the anchors; mex Metadata tells its sections apart by Dialect in its own from_node
        try:
            for name, p in X.class_props(c):
                decls.append((c, name, p))
        except X.BrokenClass:
            continue
    by_cls = {}
    for d in decls:
        by_cls.setdefault(type(d[2]).__name__, []).append(d)
    cases = []
    hist = {}
    order = sorted(by_cls)
    for i in range(req['count']):
        tn = order[i % len(order)]
        owner, name, p = rng.choice(by_cls[tn])
        try:
            case = one_prop_case(rng, owner, name, p, kind_tab[tn], conv_of(p), cids)
        except G.Skip:
            case = None
        except Exception as ex:  # noqa: BLE001
            case = {'crash': f'{X.class_key(owner)}.{name}: ' + traceback.format_exc()[-700:]}
        if case is not None:
            case['descriptor'] = tn
            case['member'] = f'{X.class_key(owner)}.{name}'
            cases.append(case)
            hist[tn] = hist.get(tn, 0) + 1
    return {'cases': cases, 'hist': hist, 'descriptor_classes': len(order)}


def b(x):
    return 'true' if x else 'false'


def one_prop_case(rng, owner, name, p, kind, conv, cids):
    gen = G.Gen(rng, max_depth=1, max_list=2)
    pc = PropCase(rng, gen, cids)
    is_attr = isinstance(p, xs._AttributeBase)  # noqa: SLF001
    if is_attr:
        an = p._attribute_name  # noqa: SLF001
        slot_name = an.text if isinstance(an, etree.QName) else an
        slot_lit = f'(Some {pc.nid("@" + slot_name)}%N)'
    else:
        qn = p._sub_element_name  # noqa: SLF001
        slot_name = None if qn is None else (qn.text if isinstance(qn, etree.QName) else str(qn))
        slot_lit = 'None' if slot_name is None else f'(Some {pc.nid(slot_name)}%N)'
    if slot_name is None and kind not in ('KText', 'KTextList', 'KQNameList'):
        raise G.Skip('node itself')
    mode = {'KAttrList': 'words', 'KTextList': 'words', 'KQNameList': 'qwords', 'KCurTs': 'curts'}.get(kind, 'scalar')
    if isinstance(p, (xs.QNameAttributeProperty, xs.NodeTextQNameProperty, xs.NodeEnumQNameProperty)):
        mode = 'qname'
    if kind == 'KTextList':
        mode = 'wsplit'
    own = ('a', slot_name, mode) if is_attr else (('t', None, mode) if slot_name is None else ('e', slot_name, mode))
    vc = getattr(p, 'value_class', None)
    vid = cids.get(X.class_key(vc), 0) if isinstance(vc, type) and issubclass(vc, X.BASES) else 0
    d = p._default_py_value  # noqa: SLF001
    plit = (f'(mkProp {kind} {slot_lit} {conv} {b(p.is_optional)} {b(d is not None)} {b(d is not None and X.is_mutable(d))} '
            f'{vid}%N {b(min_len_flag(p))})')
    # ---- the value
    inst = X.construct(owner)
    r = rng.random()
    if r < 0.2:
        v = None
    else:
        part = gen.particle(gen.ctype_of(owner), p)
        v = gen.value(owner, name, p, 0, not p.is_optional, part, 0, 2)
    inst.__dict__[p._local_var_name] = v  # noqa: SLF001
    # ---- the node: empty, or with unrelated content
    node = etree.Element(etree.QName(X.VERIF_NS, 'Owner'), nsmap=dict(X.NSMAP, vx=X.VERIF_NS))
    if rng.random() < 0.5:
        node.set('zzOther', 'o1')
        etree.SubElement(node, etree.QName(X.VERIF_NS, 'Other')).text = 'o2'
    if rng.random() < (0.6 if v is None else 0.25) and kind in ('KAttr', 'KAttrList') and mode in ('scalar', 'words') and conv in ('CStr', 'COther') \
            and not isinstance(p, (xs.BooleanAttributeProperty, xs.DecimalListAttributeProperty)):
        node.set(p._attribute_name, 'old')  # noqa: SLF001
    if rng.random() < (0.6 if v is None else 0.25) and kind in ('KText', 'KTextList') and slot_name is not None and mode in ('scalar', 'wsplit') \
            and conv in ('CStr', 'COther'):
        etree.SubElement(node, slot_name).text = 'old'
    before = pc.tree(etree.fromstring(etree.tostring(node)), own)

    def to_val(x, reading=False):
        if x is None:
            return 'VNone'
        if kind in ('KAttr', 'KCurTs', 'KText'):
            if kind == 'KCurTs':
                return 'VAtom 1'
            if isinstance(x, etree.QName):
                return f'VAtom {pc.atom(x.text)}'
            if hasattr(x, 'value') and isinstance(getattr(x, 'value'), etree.QName):
                return f'VAtom {pc.atom(x.value.text)}'
            if isinstance(p, xs.DateOfBirthProperty):
                return f'VAtom {pc.atom(str(x))}'
            return f'VAtom {pc.atom(p._converter.to_xml(x))}'  # noqa: SLF001
        if kind in ('KAttrList',):
            return 'VWords [' + '; '.join(str(pc.atom(p._converter.elem_to_xml(e))) for e in x) + ']'  # noqa: SLF001
        if kind in ('KTextList', 'KElemTextList'):
            return 'VWords [' + '; '.join(str(pc.atom(e if isinstance(e, str) or e is None else str(e))) for e in x) + ']'
        if kind == 'KQNameList':
            return 'VWords [' + '; '.join(str(pc.atom(e.text)) for e in x) + ']'
        if kind in ('KSub', 'KSubNonEmpty'):
            return struct_val(x)
        if kind == 'KSubList':
            return 'VList [' + '; '.join(struct_val(e) for e in x) + ']'
        return 'VOpaque [' + '; '.join(lit_tree(pc.tree(etree.fromstring(etree.tostring(e)))) for e in x) + ']'

    def struct_val(x):
        if d is not None and x is d:
            return 'VDflt'
        dump = X.canon(x)
        for cd, lit in pc.nested:
            if cd == dump:
                return lit
        uid = len(pc.nested) + 1
        empty = hasattr(x, 'is_empty') and x.is_empty()
        lit = f'(VStruct {cids.get(X.class_key(type(x)), 0)}%N [{"VNone" if empty else f"VAtom {uid}"}])'
        pc.nested.append((dump, lit))
        t = pc.tree(etree.fromstring(etree.tostring(X.serialise(x, etree.QName(X.VERIF_NS, 'Nested')))))
        pc.tab.append(f'({lit}, {lit_tree(t)})')
        return lit

    vlit = to_val(v)
    orig = etree.tostring(node)
    try:
        p.update_xml_value(inst, node)
        read_node = etree.fromstring(etree.tostring(node))
        out_tree = f'(Some {lit_tree(pc.tree(read_node, own))})'
        wrote = True
    except Exception:  # noqa: BLE001   update_xml_value raises (mandatory value missing, ...): model says None
        read_node = etree.fromstring(orig)      # the model reads the unchanged input in that case
        out_tree = 'None'
        wrote = False
    try:
        rv = p.get_py_value_from_node(X.construct(owner), read_node)
        absent = slot_name is not None and not is_attr and read_node.find(slot_name) is None
        if kind in ('KSub', 'KSubNonEmpty', 'KText') and d is not None and absent and rv is not None:
            rlit = 'VDflt'       # the declared default (the object itself today, a copy of it once repaired)
        else:
            rlit = to_val(rv, True)
        out_val = f'(Some ({rlit}))'
    except Exception:  # noqa: BLE001
        out_val = 'None'
    return {'input': f'({plit}, [{"; ".join(pc.tab)}], {vlit}, {lit_tree(before)})',
            'tree': out_tree, 'val': out_val, 'kind': kind, 'wrote': wrote, 'none_value': v is None}


if req['stream'] == 'props':
    print(json.dumps(run_props()))
