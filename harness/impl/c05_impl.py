"""Implementation side of C05.

stream `classes`: for every data-type / container class: generated instance -> as_etree_node / mk_node -> bytes ->
parse -> from_node -> canonical value equal?; re-serialise -> identical bytes?; bytes valid against the bundled XSD
(resolved through sdc11073.schema_resolver.SchemaResolver)?; absent members read back as implied/default values that
are not the class-level default object?

Every value is written twice (both outputs, the first tree, the value and the source document are compared), every
document is read with optional parts removed and into populated instances (update_from_node; from_node variants with
a pre-set object) and compared with the read into a fresh instance and with the implied / default values.

stream `props`: single property descriptors driven directly (update_xml_value / get_py_value_from_node, and
update_from_node on an instance whose member is pre-set) on small element trees; the trees and values are returned
in the vocabulary of coq/XmlStruct/Model.v / Instance.v.

stream `own`: the opaque members under random assign / parse / read / write sequences (coq/XmlStruct/Instance.v).

stdin : {"stream": "classes", "seed": n, "per_class": k, "only": [keys]?} | {"stream": "props" | "own", "seed": n, "count": k}
stdout: {"results": ...} | {"cases": ...}"""
import json
import random
import sys
import traceback
from decimal import Decimal
from io import StringIO

from lxml import etree

import xs_gen as G
from xs_xsd import CType as D_CType
import xs_lib as X
from xs_lib import min_len_flag
from sdc11073.mdib import descriptorcontainers, statecontainers
from sdc11073.namespaces import PrefixesEnum
from sdc11073.schema_resolver import SchemaResolver
from sdc11073.xml_types import xml_structure as xs

req = json.load(sys.stdin)


class _FrozenTime:
    """xml_structure reads time.time() for the write-only current-timestamp attribute (ClockState.DateAndTime)"""

    @staticmethod
    def time():
        return 1790135069.25


xs.time = _FrozenTime
XS = '{http://www.w3.org/2001/XMLSchema}'
WRAP_NS = 'urn:verif:wrap'     # target namespace of the per-type wrapper elements (valid under any default namespace)


# ------------------------------------------------------------------------------------------------ XSD
def load_schema_index():
    types, elems = {}, {}
    for e in PrefixesEnum:
        f = e.value.local_schema_file
        if f is None:
            continue
        root = etree.parse(str(f)).getroot()
        tns = root.get('targetNamespace')
        for ct in root.findall(XS + 'complexType'):
            types[(tns, ct.get('name'))] = ct.get('abstract') == 'true'
        for el in root.findall(XS + 'element'):
            elems[(tns, el.get('name'))] = el.get('type')
    return types, elems


def mk_validator(types):
    """the library's combined schema (as schema_resolver.mk_schema_validator builds it) plus one global element per
    named complex type, so that a value of that type can be validated on its own"""
    specs = [e.value for e in PrefixesEnum]
    parser = etree.XMLParser(resolve_entities=True)
    parser.resolvers.add(SchemaResolver(specs))
    tmp = StringIO()
    tmp.write('<?xml version="1.0" encoding="UTF-8"?>')
    prefixes = {e.value.namespace: e.value.prefix for e in PrefixesEnum}
    decl = ' '.join(f'xmlns:{p}="{ns}"' for ns, p in prefixes.items() if p not in ('xsd', 'xml'))
    tmp.write(f'<xsd:schema xmlns:xsd="http://www.w3.org/2001/XMLSchema" {decl} elementFormDefault="qualified" '
              f'targetNamespace="{WRAP_NS}">\n')
    for entry in specs:
        if entry.schema_location_url is not None and entry.prefix != 'xsd':
            tmp.write(f'<xsd:import namespace="{entry.namespace}" schemaLocation="{entry.schema_location_url}"/>\n')
    for (ns, name), abstract in sorted(types.items()):
        if not abstract and ns in prefixes:
            tmp.write(f'<xsd:element name="t__{prefixes[ns]}__{name}" type="{prefixes[ns]}:{name}"/>\n')
    tmp.write('</xsd:schema>')
    tree = etree.fromstring(tmp.getvalue().encode('utf-8'), parser=parser)
    return etree.XMLSchema(etree=tree), prefixes


def root_tag(cls, types, elems, prefixes):
    """(tag, validate?) for a top-level instance of cls"""
    nt = getattr(cls, 'NODETYPE', None)
    if nt is not None and nt.namespace is not None:
        key = (nt.namespace, nt.localname)
        if key in elems:
            return nt, True
        if key in types:
            return etree.QName(WRAP_NS, f't__{prefixes[nt.namespace]}__{nt.localname}'), not types[key]
    return etree.QName(X.VERIF_NS, 'Root'), False


# ------------------------------------------------------------------------------------------------ classes
def absent_ok(obj, obj2, out, path='', depth=0):
    """members absent in the XML read back as the implied / default value, never as the class-level default object"""
    if depth > 6 or not X.is_struct(obj2) or type(obj) is not type(obj2):
        return
    for (name, p), raw, raw2 in zip(X.class_props(type(obj2)), X.raw_fields(obj), X.raw_fields(obj2)):
        d = getattr(p, '_default_py_value', None)
        if raw2 is not None and d is not None and raw2 is d and X.is_mutable(d):
            out.append(('absent member is the class-level default object', f'{path}.{name}'))
        if raw is None and not isinstance(p, (xs._ElementListProperty, xs._AttributeListBase, xs.ExtensionNodeProperty)):  # noqa: SLF001
            seen = getattr(obj2, name)
            want = p._implied_py_value if p._implied_py_value is not None else d  # noqa: SLF001
            if X.canon(seen) != X.canon(want):
                out.append(('absent member is not the implied/default value', f'{path}.{name}'))
        if X.is_struct(raw) and X.is_struct(raw2):
            absent_ok(raw, raw2, out, f'{path}.{name}', depth + 1)
        elif isinstance(raw, list) and isinstance(raw2, list):
            for i, (a, b) in enumerate(zip(raw, raw2)):
                if X.is_struct(a):
                    absent_ok(a, b, out, f'{path}.{name}[{i}]', depth + 1)


def short(b, n=700):
    if isinstance(b, bytes) and b.startswith(b'<'):
        try:                     # a document: drop the unused namespace declarations for the report
            t = etree.fromstring(b)
            etree.cleanup_namespaces(t)
            b = etree.tostring(t)
        except etree.XMLSyntaxError:
            pass
    s = b.decode('utf-8', 'replace') if isinstance(b, bytes) else str(b)
    return s if len(s) <= n else s[:n] + '...'


# ---- the clauses that need more than one document / more than one write (added after seeded defects were missed)
def tob(node):
    return etree.tostring(node)


def struct_children(node, obj):
    """(sub node, sub value, path) for every structured member of obj whose element(s) can be matched in node"""
    for (name, p), raw in zip(X.class_props(type(obj)), X.raw_fields(obj)):
        qn = getattr(p, '_sub_element_name', None)
        if qn is None or isinstance(p, xs._AttributeBase):  # noqa: SLF001
            continue
        if X.is_struct(raw):
            sub = node.find(qn)
            if sub is not None:
                yield sub, raw, f'.{name}'
        elif isinstance(raw, list) and raw and all(X.is_struct(x) for x in raw):
            subs = node.findall(qn)
            if len(subs) == len(raw):
                for i, (s, x) in enumerate(zip(subs, raw)):
                    yield s, x, f'.{name}[{i}]'


def slot_present(node, p):
    """True / False: the attribute / element of descriptor p occurs in node; None: p is bound to the node itself"""
    if isinstance(p, xs._AttributeBase):  # noqa: SLF001
        return node.get(p._attribute_name) is not None  # noqa: SLF001
    qn = p._sub_element_name  # noqa: SLF001
    if qn is None:
        return None
    return node.find(qn) is not None


def absent_expect(p):
    """acceptable canonical values of a member whose attribute / element is absent"""
    d, im = p._default_py_value, p._implied_py_value  # noqa: SLF001
    if isinstance(p, (xs._ElementListProperty, xs._AttributeListBase, xs.ExtensionNodeProperty)):  # noqa: SLF001
        return [X.canon([])]
    if im is not None:
        return [X.canon(im)]
    if isinstance(p, xs._AttributeBase):  # noqa: SLF001   (the attribute readers report None, the doc string promises the default)
        return [None] + ([X.canon(d)] if d is not None else [])
    return [X.canon(d)]


def effective_ctype(cls, inherited=None):
    """schema type of cls: the one its NODETYPE names, else (anonymous types) the type of the particle it is the value of"""
    own, _ = G.get_index().for_qname(getattr(cls, 'NODETYPE', None))
    return own if own is not None else inherited


def child_ctype(ct, qn):
    """type of the element particle qn of ct, when it is a complex type"""
    if ct is None or qn is None:
        return None
    for e in ct.elems:
        if e.qname == qn.text:
            t = G.get_index().elem_type(e)
            return t if isinstance(t, D_CType) else None
    return None


def schema_default(cls, p, ct=None):
    """text form of the value the SCHEMA documents for the member when it is absent (default= or the sentence `The
    implied value SHALL be "..."` in the xsd:documentation) - independent of the library's declaration"""
    ct = effective_ctype(cls, ct)
    if ct is None:
        return None
    if isinstance(p, xs._AttributeBase):  # noqa: SLF001
        an = p._attribute_name  # noqa: SLF001
        return ct.adefault.get(an.text if isinstance(an, etree.QName) else an)
    qn = p._sub_element_name  # noqa: SLF001
    return None if qn is None else next((e.implied for e in ct.elems if e.qname == qn.text), None)


def absent_members(node, obj, out, path='', depth=0, ct=None):
    """the clause `absent optional parts yield the implied / default value`, evaluated on (document, value read
    from it) - independent of how the document was made and of what the instance held before"""
    if depth > 6 or not X.is_struct(obj):
        return
    for name, p in X.class_props(type(obj)):
        if isinstance(p, xs.CurrentTimestampAttributeProperty) or slot_present(node, p) is not False:
            continue
        seen = X.canon(getattr(obj, name))
        want = absent_expect(p)
        if seen not in want:
            out.append(('member absent in the XML is not the implied/default value', f'{path}.{name}',
                        {'seen': short(str(seen), 200), 'expected': short(str(want[-1]), 200),
                         'descriptor': type(p).__name__}))
        sd = schema_default(type(obj), p, ct)
        if sd is not None:
            try:
                sd_val = p._converter.to_py(sd)  # noqa: SLF001
            except Exception:  # noqa: BLE001
                sd_val = sd
            pub = getattr(obj, name)
            num = (int, float, Decimal)
            same = X.canon(pub) == X.canon(sd_val) or (
                isinstance(pub, num) and isinstance(sd_val, num) and not isinstance(pub, bool) and pub == sd_val)
            if not same:
                out.append(('member absent in the XML is not the value the schema documents for it', f'{path}.{name}',
                            {'seen': short(str(seen), 200), 'schema documents': sd, 'descriptor': type(p).__name__,
                             'declaration': f'implied_py_value={p._implied_py_value!r} default_py_value={p._default_py_value!r}'}))  # noqa: SLF001
        raw = obj.__dict__.get(p._local_var_name)  # noqa: SLF001
        d = p._default_py_value  # noqa: SLF001
        if raw is not None and raw is d and X.is_mutable(d):
            out.append(('absent member is the class-level default object', f'{path}.{name}', {}))
    here = effective_ctype(type(obj), ct)
    for sub, val, pth in struct_children(node, obj):
        absent_members(sub, val, out, path + pth, depth + 1, child_ctype(here, etree.QName(sub)))


def thin(node, obj, gen, rng, p_del, depth=0):
    """remove optional attributes / elements (optional for the library AND for the schema particle) from the
    document itself; returns the number of removed parts"""
    cls = type(obj)
    if cls in G.MEX_SECTIONS:
        return 0
    ct = gen.ctype_of(cls)
    removed = 0
    for name, p in X.class_props(cls):
        if isinstance(p, xs.CurrentTimestampAttributeProperty) or not p.is_optional or not slot_present(node, p):
            continue
        part = gen.particle(ct, p)
        if part is not None and ((part[0] == 'a' and part[1][1]) or (part[0] == 'e' and part[1].min >= 1)):
            continue
        if rng.random() >= p_del:
            continue
        if isinstance(p, xs._AttributeBase):  # noqa: SLF001
            an = p._attribute_name  # noqa: SLF001
            del node.attrib[an.text if isinstance(an, etree.QName) else an]
            removed += 1
        else:
            for k in node.findall(p._sub_element_name):  # noqa: SLF001
                node.remove(k)
                removed += 1
    if depth < 2:
        for sub, val, _ in list(struct_children(node, obj)):
            removed += thin(sub, val, gen, rng, p_del, depth + 1)
    return removed


OPAQUE_PROPS = (xs.ExtensionNodeProperty, xs.AnyEtreeNodeListProperty, xs.AnyEtreeNodeProperty)


def diff_tag(b1, b2):
    import re
    m = re.match(r'</?([\w:.\-]+)', first_diff_tag(b1, b2))
    return m.group(1) if m else first_diff_tag(b1, b2)


PRE_DESCR_VERSION = 37


def preset_variants(cls, doc):
    """from_node variants that construct the instance from a pre-set object before the XML is read"""
    if issubclass(cls, statecontainers.AbstractStateContainer):
        descr = descriptorcontainers.AbstractDescriptorContainer(handle='h.pre', parent_handle='p.pre')
        descr.DescriptorVersion = PRE_DESCR_VERSION
        yield 'from_node(node, descriptor_container)', cls.from_node(etree.fromstring(doc), descr)
    elif issubclass(cls, descriptorcontainers.AbstractDescriptorContainer):
        yield 'from_node(node, parent_handle)', cls.from_node(etree.fromstring(doc), 'p.pre')


def write_purity(obj, tag, what, fails, reparse_cls=None, source=None):
    """write obj twice: both outputs identical, the first output / the value / the document the value was read from
    unchanged by the (second) write.  Returns the bytes of the first write."""
    c0 = X.canon(obj)
    src0 = None if source is None else tob(source)
    opaque = '+'.join(sorted({type(p).__name__ for (_, p), raw in walk_fields(obj) if isinstance(p, OPAQUE_PROPS) and raw}))

    def diff_member(a, b):        # signature: the opaque descriptor classes in play (else the first differing tag)
        return opaque or diff_tag(a, b)
    n1 = X.serialise(obj, tag)
    s1 = tob(n1)
    if source is not None and tob(source) != src0:
        fails.append(('writing a value changed the document it was read from', diff_member(src0, tob(source)),
                      {'value': what, 'document_before': short(src0), 'document_after': short(tob(source))}))
    n2 = X.serialise(obj, tag)
    s2 = tob(n2)
    if s2 != s1:
        fails.append(('writing the same value twice gives different XML', diff_member(s1, s2),
                      {'value': what, 'first': short(s1), 'second': short(s2)}))
    if tob(n1) != s1:
        fails.append(('an earlier written document changed when the value was written again', diff_member(s1, tob(n1)),
                      {'value': what, 'first_write': short(s1), 'same_tree_after_second_write': short(tob(n1))}))
    if source is not None and tob(source) != src0 and not any(f[0].startswith('writing a value changed') for f in fails):
        fails.append(('writing a value changed the document it was read from', diff_member(src0, tob(source)),
                      {'value': what, 'document_before': short(src0), 'document_after_second_write': short(tob(source))}))
    c1 = X.canon(obj)
    if c1 != c0:
        path, a, b = X.canon_diff(c0, c1)
        fails.append(('writing changed the value that was written', path,
                      {'value': what, 'before': short(str(a), 200), 'after': short(str(b), 200), 'xml': short(s1)}))
    if reparse_cls is not None:
        back = X.canon(X.parse(reparse_cls, n1))
        if back != c0:
            path, a, b = X.canon_diff(c0, back)
            fails.append(('value read from the first written tree (after the second write) differs', path,
                          {'value': what, 'written': short(str(a), 200), 'read': short(str(b), 200),
                           'tree_now': short(tob(n1))}))
    return s1


def descriptor_at(obj, path):
    """class name of the property descriptor that declares the member at `path` (as printed by canon_diff) below obj"""
    import re
    name = None
    try:
        for name, idx in re.findall(r'\.(\w+)(?:\[(\d+)\])?', path):
            p = dict(X.class_props(type(obj))).get(name)
            if p is None:
                return None
            desc = type(p).__name__
            obj = obj.__dict__.get(p._local_var_name)  # noqa: SLF001
            if idx and isinstance(obj, list) and int(idx) < len(obj):
                obj = obj[int(idx)]
            if not X.is_struct(obj):
                return desc
        return desc if name else None
    except Exception:  # noqa: BLE001
        return None


def populated_reads(cls, doc, fresh_canon, targets, fails):
    """reading doc into an instance that already holds other values = reading it into a fresh instance"""
    for how, make in targets:
        try:
            target = make()
            node = etree.fromstring(doc)
            target.update_from_node(node)
        except Exception as ex:  # noqa: BLE001
            fails.append((f'update_from_node on a populated instance raises {type(ex).__name__}', last_member(ex),
                          {'populated': how, 'document': short(doc), 'trace': short(traceback.format_exc()[-600:], 600)}))
            continue
        ct = X.canon(target)
        if ct != fresh_canon:
            path, a, b = X.canon_diff(fresh_canon, ct)
            fails.append(('reading into a populated instance differs from reading into a fresh instance', path,
                          {'populated': how, 'document': short(doc), 'fresh instance': short(str(a), 200),
                           'populated instance': short(str(b), 200), 'descriptor': descriptor_at(target, path)}))
        out = []
        absent_members(node, target, out)
        for clause, path, det in out:
            fails.append((clause, path, dict(det, read_into=how, document=short(doc))))


# ---- the PUBLIC view: what the application sees through attribute access (descriptor.__get__), as opposed to the
# storage slots that X.canon dumps; and the falsy-but-present values of every member type
def pview(v, depth=0):
    """canonical dump like X.canon, but every member is fetched with getattr(obj, name)"""
    if X.is_struct(v) and depth < 8:
        items = []
        for name, p in X.class_props(type(v)):
            if isinstance(p, xs.CurrentTimestampAttributeProperty):
                continue
            x = getattr(v, name)
            if x is None and isinstance(p, (xs.ExtensionNodeProperty, xs._AttributeListBase)):  # noqa: SLF001
                x = []       # same normal form as X.canon: None and the empty list are one value
            items.append((name, pview(x, depth + 1)))
        return (X.class_key(type(v)), tuple(items))
    if isinstance(v, (list, tuple)) and any(X.is_struct(x) for x in v):
        return ('list', tuple(pview(x, depth + 1) for x in v))
    return X.canon(v)


SCALAR_PROPS = (xs._AttributeBase, xs.NodeTextProperty)  # noqa: SLF001


def public_checks(node, obj, out, path='', depth=0):
    """attribute access returns the stored value whenever one is stored, and - for the scalar members - the value
    the descriptor's reader finds in the document"""
    if depth > 6 or not X.is_struct(obj):
        return
    for name, p in X.class_props(type(obj)):
        if isinstance(p, xs.CurrentTimestampAttributeProperty):
            continue
        raw = obj.__dict__.get(p._local_var_name)  # noqa: SLF001
        try:
            pub = getattr(obj, name)
        except Exception as ex:  # noqa: BLE001
            out.append((f'attribute access raises {type(ex).__name__}', f'{path}.{name}', {'descriptor': type(p).__name__}))
            continue
        if raw is not None and X.canon(pub) != X.canon(raw):
            out.append(('attribute access does not return the stored value', f'{path}.{name}',
                        {'stored': short(str(X.canon(raw)), 200), 'getattr': short(str(X.canon(pub)), 200),
                         'descriptor': type(p).__name__}))
        if node is not None and isinstance(p, SCALAR_PROPS) and not isinstance(p, xs._AttributeListBase) \
                and slot_present(node, p) is True:  # noqa: SLF001
            try:
                in_doc = p.get_py_value_from_node(obj, node)
            except Exception:  # noqa: BLE001
                continue
            if in_doc is not None and X.canon(pub) != X.canon(in_doc):
                out.append(('attribute access differs from the value in the document', f'{path}.{name}',
                            {'document value': short(str(X.canon(in_doc)), 200), 'getattr': short(str(X.canon(pub)), 200),
                             'descriptor': type(p).__name__}))
    if node is not None:
        for sub, val, pth in struct_children(node, obj):
            public_checks(sub, val, out, path + pth, depth + 1)


def falsy_values(p):
    """[(label, value)]: every falsy value of the member's type that can be PRESENT in the XML (plus the first enum
    member and the empty list)"""
    from decimal import Decimal
    from sdc11073.xml_types import dataconverters as dc
    if isinstance(p, (xs._ElementListProperty, xs._AttributeListBase)):  # noqa: SLF001
        return [('empty list', [])]
    if isinstance(p, xs.ExtensionNodeProperty):
        return [('empty list', xs.ExtensionLocalValue())]
    if not isinstance(p, SCALAR_PROPS) or isinstance(p, (xs.QNameAttributeProperty, xs.NodeTextQNameProperty)):
        return []
    conv = p._converter  # noqa: SLF001
    is_cls = isinstance(conv, type)
    out = []
    if conv is dc.BooleanConverter:
        out = [('False', False)]
    elif is_cls and issubclass(conv, dc.IntegerConverter):
        out = [('int 0', 0)]
    elif conv is dc.DecimalConverter:
        out = [('Decimal 0', Decimal(0))]
    elif conv is dc.DurationConverter:
        out = [('duration 0.0', 0.0)]
    elif conv is dc.TimestampConverter:
        out = [('timestamp 0.0', 0.0)]
    elif is_cls and issubclass(conv, dc.StringConverter):
        out = [] if getattr(p, '_min_length', 0) else [('empty string', '')]
    elif isinstance(conv, dc.EnumConverter):
        members = list(conv._klass)  # noqa: SLF001
        out = [('first enum member', members[0])] + [('falsy enum member', m) for m in members[1:] if not m.value]
    elif isinstance(conv, dc.ClassCheckConverter):
        kl = conv._klass if isinstance(conv._klass, tuple) else (conv._klass,)  # noqa: SLF001
        for k, lab, val in ((bool, 'False', False), (int, 'int 0', 0), (float, 'float 0.0', 0.0),
                            (Decimal, 'Decimal 0', Decimal(0)), (str, 'empty string', '')):
            if k in kl:
                out.append((lab, val))
    return out


def falsy_pass(cls, tag, validate, schema, rng, res, count):
    """every member of cls, set to every falsy value of its type, written, parsed, and read through attribute access"""
    for name, p in X.class_props(cls):
        if isinstance(p, xs.CurrentTimestampAttributeProperty) or (cls in G.MEX_SECTIONS and name == 'Dialect'):
            continue
        for label, fv in falsy_values(p):
            gen = G.Gen(rng, max_depth=1, p_optional=0.3)
            stage = 'generate'
            try:
                obj = gen.instance(cls)
                try:
                    setattr(obj, name, fv)
                except Exception:  # noqa: BLE001   the library refuses this value for this member
                    count('falsy_refused_by_setter')
                    continue
                stage = 'write'
                b1 = tob(X.serialise(obj, tag))
                if validate and not schema.validate(etree.fromstring(b1)):
                    count('falsy_not_schema_valid_skipped')
                    continue
                stage = 'read'
                src = etree.fromstring(b1)
                obj2 = X.parse(cls, src)
            except Exception as ex:  # noqa: BLE001
                res['fail'].append({'clause': f'{stage} raises {type(ex).__name__} (falsy value)', 'member': last_member(ex),
                                    'descriptor': type(p).__name__,
                                    'detail': {'member': name, 'value': label, 'trace': short(traceback.format_exc()[-700:], 700)}})
                continue
            res['falsy'] = res.get('falsy', 0) + 1
            count('falsy_cases')
            count('falsy: ' + label)
            if p._implied_py_value is not None:  # noqa: SLF001
                count('falsy_member_has_implied_value')
                if X.canon(p._implied_py_value) != X.canon(fv):  # noqa: SLF001
                    count('falsy_differs_from_implied_value')
            elif p._default_py_value is not None:  # noqa: SLF001
                count('falsy_member_has_default_value')
            fails = []
            present = slot_present(src, p)
            seen = X.canon(getattr(obj2, name))
            if isinstance(fv, list):
                want = [X.canon([])]
            elif present is False:       # '' in a text element etc. may legitimately not be representable: the round trip decides
                want = None
            else:
                want = [X.canon(fv)]
            if want is not None and seen not in want:
                fails.append(('falsy value present in the XML is not what attribute access returns', f'.{name}',
                              {'value': label, 'written': short(str(X.canon(fv)), 120), 'getattr after reading': short(str(seen), 120),
                               'implied': short(str(X.canon(p._implied_py_value)), 120),  # noqa: SLF001
                               'descriptor': type(p).__name__}))
            pv1, pv2 = pview(obj), pview(obj2)
            if pv1 != pv2:
                path, a, b = X.canon_diff(pv1, pv2)
                fails.append(('value read back differs (attribute access)', path,
                              {'value': label, 'written': short(str(a), 200), 'read': short(str(b), 200),
                               'descriptor': descriptor_at(obj2, path)}))
            c1, c2 = X.canon(obj), X.canon(obj2)
            if c1 != c2:
                path, a, b = X.canon_diff(c1, c2)
                fails.append(('value read back differs', path, {'value': label, 'written': short(str(a), 200),
                                                                 'read': short(str(b), 200)}))
            out = []
            public_checks(src, obj2, out)
            fails += out
            for clause, member, det in fails:
                res['fail'].append({'clause': clause, 'member': member, 'descriptor': det.get('descriptor'),
                                    'detail': dict(det, falsy_member=name, xml=short(b1))})


# ---- non-default namespace configurations: NamespaceHelper(default_ns=...), other prefixes, a default namespace in
# the ns map, namespace subsets; containers are written WITH xsi:type (mk_node(set_xsi_type=True) = mk_state_node)
_NS_VARIANTS = None


def ns_variants():
    global _NS_VARIANTS
    if _NS_VARIANTS is None:
        from sdc11073.namespaces import NamespaceHelper
        out = []
        full = dict(X.NSMAP)
        for name in ('PM', 'MSG', 'EXT'):
            ns = getattr(X.NS_HELPER, name).namespace
            h = NamespaceHelper(PrefixesEnum, default_ns=ns)
            m = dict(full)
            m[None] = ns
            out.append((f'NamespaceHelper(default_ns={name})', h, m))
        renamed = {f'q{i}': ns for i, (pfx, ns) in enumerate(sorted(full.items())) if pfx not in ('xml',)}
        out.append(('other prefixes (q0, q1, ...)', None, renamed))
        _NS_VARIANTS = out
    return _NS_VARIANTS


def used_namespaces(node):
    res = set()
    for el in node.iter():
        if isinstance(el.tag, str):
            res.add(etree.QName(el).namespace)
            for k in el.attrib:
                res.add(etree.QName(k).namespace)
    res.discard(None)
    return res


def ns_config_checks(obj, cls, tag, validate, schema, reference_canon, fails, count):
    from sdc11073.namespaces import QN_TYPE, text_to_qname
    is_cont = isinstance(obj, X.containerbase.ContainerBase)
    variants = list(ns_variants())
    if not is_cont:     # a subset: only the namespaces that occur in the document (+ xsi and the QName value pool)
        base = X.serialise(obj, tag)
        need = used_namespaces(base) | set(G.NS_POOL) | {X.NSMAP['xsi']}
        variants.append(('namespace subset', None, {k: v for k, v in X.NSMAP.items() if v in need}))
    for label, helper, ns_map in variants:
        if is_cont and helper is None:
            continue
        dns = (ns_map or {}).get(None)
        if dns is not None and any(isinstance(p, (xs.NodeTextQNameProperty, xs.NodeTextQNameListProperty)) and raw is not None
                                   and any(q.namespace == dns for q in (raw if isinstance(raw, list) else [raw])
                                           if isinstance(q, etree.QName))
                                   for (_, p), raw in walk_fields(obj)):
            # element.text = QName(<default namespace>, ...) makes this lxml dereference a NULL prefix (SIGSEGV, pure
            # lxml reproduction); the case is probed in a child process by run_classes, not here
            count('ns_config_skipped_qname_text_in_default_namespace')
            continue
        count('ns_config_cases')
        count('ns_config: ' + label.split('(')[0].strip() + ('' if helper is None else ' ' + label.split('=')[-1].rstrip(')')))
        stage = 'write'
        try:
            if is_cont:
                node = obj.mk_node(tag, helper, set_xsi_type=True)
            else:
                node = obj.as_etree_node(tag, dict(ns_map))
            b1 = tob(node)
            stage = 'parse'
            doc = etree.fromstring(b1)
            if is_cont and cls.NODETYPE is not None:
                stage = 'resolve xsi:type'
                qn = text_to_qname(doc.get(QN_TYPE), doc.nsmap)
                if qn != cls.NODETYPE:
                    fails.append(('xsi:type written under a non-default namespace configuration resolves to another type',
                                  'xsi:type', {'configuration': label, 'written': doc.get(QN_TYPE), 'resolves to': qn.text,
                                               'expected': cls.NODETYPE.text, 'xml': short(b1)}))
                    continue
            stage = 'read'
            back = X.parse(cls, doc)
        except Exception as ex:  # noqa: BLE001
            fails.append((f'{stage} raises {type(ex).__name__} under a non-default namespace configuration',
                          'xsi:type' if 'xsi' in stage or 'QName' in str(ex) else last_member(ex),
                          {'configuration': label, 'error': short(str(ex), 300),
                           'xml': short(b1) if stage != 'write' else None}))
            continue
        cb = X.canon(back)
        if cb != reference_canon:
            path, a, b_ = X.canon_diff(reference_canon, cb)
            fails.append(('value read back differs under a non-default namespace configuration', path,
                          {'configuration': label, 'written': short(str(a), 200), 'read': short(str(b_), 200), 'xml': short(b1),
                           'descriptor': descriptor_at(back, path)}))
        if validate and not schema.validate(doc):
            err = schema.error_log[0]
            fails.append(('not schema-valid under a non-default namespace configuration', xsd_member(err.message),
                          {'configuration': label, 'error': err.message[:400], 'xml': short(b1, 900)}))
        try:
            b2 = tob(back.mk_node(tag, helper, set_xsi_type=True) if is_cont else back.as_etree_node(tag, dict(ns_map)))
            if b2 != b1:
                fails.append(('second write differs under a non-default namespace configuration', diff_tag(b1, b2),
                              {'configuration': label, 'first': short(b1), 'second': short(b2)}))
        except Exception as ex:  # noqa: BLE001
            fails.append((f'second write raises {type(ex).__name__} under a non-default namespace configuration',
                          last_member(ex), {'configuration': label, 'xml': short(b1)}))


# ---- the READ direction on documents the library would never write itself: the same infoset, re-serialised
# independently with the namespace declaration of every xsi:type value MOVED onto the element that carries it
# ('local': a new prefix declared there) or SHADOWED (a prefix that the root binds to another namespace is re-bound there)
XSI_TYPE = '{http://www.w3.org/2001/XMLSchema-instance}type'


def relocate_ns(src_root, mode):
    """(new root, number of rewritten xsi:type values); None when nothing carries an xsi:type"""
    n_rewritten = 0

    def strings(el):
        for e in el.iter():
            if isinstance(e.tag, str):
                yield e.text or ''
                yield from e.attrib.values()

    def rec(src, src_parent, parent):
        nonlocal n_rewritten
        local = {k: v for k, v in src.nsmap.items() if src_parent is None or src_parent.nsmap.get(k) != v}
        attrib = dict(src.attrib)
        t = src.get(XSI_TYPE)
        if t is not None:
            pfx, _, name = t.rpartition(':')
            ns = src.nsmap.get(pfx or None)
            new_pfx = None
            if ns is not None:
                if mode == 'local':
                    new_pfx = 'lt'
                else:       # a prefix the ROOT binds to a different namespace and that no value in the subtree uses
                    txt = list(strings(src))
                    for cand, uri in sorted((k, v) for k, v in src_root.nsmap.items() if k):
                        if uri != ns and cand != 'xsi' and not any(cand + ':' in x for x in txt):
                            new_pfx = cand
                            break
            if new_pfx is not None:
                local[new_pfx] = ns
                attrib[XSI_TYPE] = f'{new_pfx}:{name}'
                n_rewritten += 1
        if parent is None:
            new = etree.Element(src.tag, attrib=attrib, nsmap=local)
        else:
            new = etree.SubElement(parent, src.tag, attrib=attrib, nsmap=local)
        new.text, new.tail = src.text, src.tail
        for ch in src:
            if isinstance(ch.tag, str):
                rec(ch, src, new)
        return new

    new_root = rec(src_root, None, None)
    return (new_root, n_rewritten) if n_rewritten else None


def relocated_reads(cls, b1, reference_canon, validate, schema, fails, count):
    for mode, label in (('local', 'xsi:type prefix declared locally on the element that carries it'),
                        ('shadow', 'xsi:type prefix re-bound (shadowed) on the element that carries it')):
        res = relocate_ns(etree.fromstring(b1), mode)
        if res is None:
            return
        doc_bytes = tob(res[0])
        doc = etree.fromstring(doc_bytes)
        if validate and not schema.validate(doc):
            count('relocated_not_schema_valid_skipped')
            continue
        count('relocated_documents: ' + mode)
        count('relocated_xsi_type_values', res[1])
        try:
            back = X.parse(cls, doc)
        except Exception as ex:  # noqa: BLE001
            fails.append((f'read raises {type(ex).__name__} on a document with relocated namespace declarations', 'xsi:type',
                          {'relocation': label, 'error': short(str(ex), 300), 'document': short(doc_bytes, 1200),
                           'original': short(b1, 600)}))
            continue
        cb = X.canon(back)
        if cb != reference_canon:
            path, a, b_ = X.canon_diff(reference_canon, cb)
            fails.append(('value read from a document with relocated namespace declarations differs', path,
                          {'relocation': label, 'original document gives': short(str(a), 200), 'relocated gives': short(str(b_), 200),
                           'document': short(doc_bytes, 1200), 'descriptor': descriptor_at(back, path)}))


def run_classes():
    import hashlib
    types, elems = load_schema_index()
    schema, prefixes = mk_validator(types)
    results = {}
    stats = {}
    digests = []

    def count(k, n=1):
        stats[k] = stats.get(k, 0) + n

    for cls in X.all_classes():
        key = X.class_key(cls)
        if req.get('only') and key not in req['only']:
            continue
        if key in X.NOT_STANDALONE or key.startswith('soapenvelope.'):
            continue
        rng = random.Random(f'{req["seed"]}:{key}')      # per class: a replay of one class sees the same instances
        res = {'n': 0, 'ok': 0, 'validated': 0, 'fail': [], 'delegated_c18': 0}
        results[key] = res
        try:
            X.class_props(cls)
        except X.BrokenClass as ex:
            res['fail'].append({'clause': 'class cannot be instantiated', 'member': '_props', 'detail': str(ex)})
            continue
        tag, validate = root_tag(cls, types, elems, prefixes)
        can_update = cls is not X.mex_types.Metadata       # its from_node is not built on update_from_node
        # a fully populated instance of the class: the "other document" of the first round
        prev_doc = prev_obj = full_doc = None
        try:
            g0 = G.Gen(rng, max_depth=req.get('max_depth', 3))
            prev_obj = g0.instance(cls, full=True)
            prev_doc = full_doc = tob(X.serialise(prev_obj, tag))
        except Exception:  # noqa: BLE001   (reported by the instance loop below, which generates the same way)
            prev_doc = prev_obj = full_doc = None
        for i in range(req['per_class']):
            gen = G.Gen(rng, max_depth=req.get("max_depth", 3))
            res['n'] += 1
            stage = 'generate'
            fails = []
            try:
                if i == 0:       # everything present, two levels down: element ORDER of nested anonymous types is validated
                    gen.full_nested, gen.nonempty_lists = 2, True
                obj = gen.instance(cls, full=(i == 0))
                gen.full_nested, gen.nonempty_lists = 0, False
                stage = 'write'
                b1 = write_purity(obj, tag, 'generated', fails)
                stage = 'read'
                src = etree.fromstring(b1)
                src0 = tob(src)
                obj2 = X.parse(type(obj), src)
                if tob(src) != src0:
                    fails.append(('reading changed the document', diff_tag(src0, tob(src)),
                                  {'before': short(src0), 'after': short(tob(src))}))
            except Exception as ex:  # noqa: BLE001
                res['fail'].append({'clause': f'{stage} raises {type(ex).__name__}', 'member': last_member(ex),
                                    'detail': short(traceback.format_exc()[-900:], 900)})
                for k, v in gen.stats.items():
                    stats[k] = stats.get(k, 0) + v
                continue
            for k, v in gen.stats.items():
                stats[k] = stats.get(k, 0) + v
            bad = False
            c1, c2 = X.canon(obj), X.canon(obj2)
            if c1 != c2:
                path, a, b = X.canon_diff(c1, c2)
                res['fail'].append({'clause': 'value read back differs', 'member': path, 'detail':
                                    {'written': short(str(a), 200), 'read': short(str(b), 200), 'xml': short(b1)}})
                bad = True
            else:
                try:
                    b2 = write_purity(obj2, tag, 'read from the first write', fails, reparse_cls=type(obj), source=src)
                    count('purity_value_from_xml')
                except Exception as ex:  # noqa: BLE001
                    b2 = f'raises {type(ex).__name__}: {ex}'.encode()
                if b2 != b1:
                    res['fail'].append({'clause': 'second write differs', 'member': first_diff_tag(b1, b2),
                                        'detail': {'first': short(b1), 'second': short(b2)}})
                    bad = True
            count('purity_generated_value')
            pv1, pv2 = pview(obj), pview(obj2)
            if pv1 != pv2:
                path, a, b = X.canon_diff(pv1, pv2)
                fails.append(('value read back differs (attribute access)', path,
                              {'written': short(str(a), 200), 'read': short(str(b), 200), 'xml': short(b1),
                               'descriptor': descriptor_at(obj2, path)}))
            out = []
            public_checks(None, obj, out)
            public_checks(src, obj2, out)
            for clause, path, det in out:
                fails.append((clause, path, dict(det, xml=short(b1))))
            if any(isinstance(p, (xs.ExtensionNodeProperty, xs.AnyEtreeNodeListProperty, xs.AnyEtreeNodeProperty))
                   and raw for (_, p), raw in walk_fields(obj)):
                count('purity_with_nonempty_extension_or_any')
            out = []
            absent_ok(obj, obj2, out)
            for clause, path in out:
                res['fail'].append({'clause': clause, 'member': path, 'detail': {'xml': short(b1)}})
                bad = True
            out = []
            absent_members(src, obj2, out)
            for clause, path, det in out:
                fails.append((clause, path, dict(det, document=short(b1))))
            if validate:
                res['validated'] += 1
                doc = etree.fromstring(b1)
                if not schema.validate(doc):
                    err = schema.error_log[0]
                    res['fail'].append({'clause': 'not schema-valid', 'member': xsd_member(err.message),
                                        'detail': {'error': err.message[:400], 'xml': short(b1, 900)}})
                    bad = True
            # ---- the same document with the namespace declarations of the xsi:type values moved / shadowed
            if c1 == c2 and cls is not X.mex_types.Metadata:
                try:
                    relocated_reads(cls, b1, c2, validate, schema, fails, count)
                except Exception as ex:  # noqa: BLE001
                    fails.append((f'relocation harness raises {type(ex).__name__}', 'harness', {'trace': short(traceback.format_exc()[-600:], 600)}))
            # ---- the same value under non-default namespace configurations
            if i < req.get('ns_instances', 3) and c1 == c2 and cls is not X.mex_types.Metadata:
                ns_config_checks(obj, cls, tag, validate, schema, c1, fails, count)
            # ---- documents with optional parts absent; reading into populated instances
            try:
                docs = [('as written', b1)]
                for p_del, label in ((0.5, 'some optional parts removed'), (1.0, 'all optional parts removed')):
                    t = etree.fromstring(b1)
                    n_removed = thin(t, obj2, gen, rng, p_del)
                    if n_removed == 0:
                        count('thin_nothing_to_remove')
                        continue
                    if validate and not schema.validate(t):
                        count('thin_not_schema_valid_skipped')
                        continue
                    count('thin_documents')
                    count('thin_removed_parts', n_removed)
                    docs.append((label, tob(t)))
                for label, doc in docs:
                    node = etree.fromstring(doc)
                    fresh = X.parse(cls, node)
                    fc = X.canon(fresh)
                    if label != 'as written':
                        out = []
                        absent_members(node, fresh, out)
                        for clause, path, det in out:
                            fails.append((clause, path, dict(det, read_into='fresh instance', document=short(doc))))
                    for how, inst in preset_variants(cls, doc):
                        count('preset_from_node')
                        ci = X.canon(inst)
                        if ci != fc:
                            path, a, b = X.canon_diff(fc, ci)
                            fails.append((f'{how.split("(")[0]} with a pre-set object differs from from_node(node)', path,
                                          {'variant': how, 'document': short(doc), 'from_node(node)': short(str(a), 200),
                                           'variant gives': short(str(b), 200), 'descriptor': descriptor_at(inst, path)}))
                        out = []
                        absent_members(etree.fromstring(doc), inst, out)
                        for clause, path, det in out:
                            fails.append((clause, path, dict(det, read_into=how, document=short(doc))))
                    if can_update and prev_doc is not None:
                        targets = [('instance read from another document: ' + short(prev_doc, 500),
                                    lambda d=prev_doc: X.parse(cls, etree.fromstring(d)))]
                        if label == 'as written':
                            targets.append(('generated instance (all members set by the program)' if i == 0 else
                                            'the previously generated instance', lambda o=prev_obj: o))
                        elif full_doc is not None and full_doc != prev_doc:
                            targets.append(('instance read from a fully populated document: ' + short(full_doc, 500),
                                            lambda d=full_doc: X.parse(cls, etree.fromstring(d))))
                        count('populated_reads', len(targets))
                        populated_reads(cls, doc, fc, targets, fails)
            except Exception as ex:  # noqa: BLE001
                res['fail'].append({'clause': f'populated read raises {type(ex).__name__}', 'member': last_member(ex),
                                    'detail': short(traceback.format_exc()[-900:], 900)})
                bad = True
            for clause, member, det in fails:
                res['fail'].append({'clause': clause, 'member': member, 'detail': det,
                                    'descriptor': det.get('descriptor') if isinstance(det, dict) else None})
                bad = True
            prev_doc, prev_obj = b1, obj
            res['ok'] += not bad
            if not bad:
                digests.append(hashlib.sha1(b1).hexdigest()[:10])
        if not req.get('no_falsy'):
            falsy_pass(cls, tag, validate, schema, rng, res, count)
    return {'results': results, 'stats': stats, 'digests': digests, 'schema_types': len(types), 'schema_elements': len(elems)}


def walk_fields(obj, depth=0):
    """((name, descriptor), raw value) of obj and of its nested structured values"""
    for np_, raw in zip(X.class_props(type(obj)), X.raw_fields(obj)):
        yield np_, raw
        if depth < 5:
            for x in (raw if isinstance(raw, list) else [raw]):
                if X.is_struct(x):
                    yield from walk_fields(x, depth + 1)


def last_member(ex):
    import re
    m = re.findall(r'In (\w+)\.(\w+),', str(ex))
    return '.'.join(m[-1]) if m else type(ex).__name__


def xsd_member(msg):
    import re
    m = re.search(r"Element '(\{[^}]*\})?([^']+)'(?:, attribute '([^']+)')?", msg)
    kind = re.sub(r"'[^']*'", "'..'", msg.split(': ', 1)[-1])[:90]
    return (f'{m.group(2)}@{m.group(3)}' if m and m.group(3) else (m.group(2) if m else '?')) + ' :: ' + kind


def first_diff_tag(b1, b2):
    i = next((k for k, (x, y) in enumerate(zip(b1, b2)) if x != y), min(len(b1), len(b2)))
    j = b1.rfind(b'<', 0, i + 1)
    return short(b1[j:j + 40], 40)


if req['stream'] == 'classes':
    print(json.dumps(run_classes()))


# ------------------------------------------------------------------------------------------------ props
KIND_OF = None


def load_kind_table():
    """descriptor class name -> model kind: the table of the translator (single source)"""
    import importlib.util
    import io
    spec = importlib.util.spec_from_file_location('gen_schema_tab', __file__.replace('c05_impl.py', 'gen_schema.py'))
    src = open(spec.origin).read()
    head = src[:src.index('names = {}')]
    ns = {}
    stdin = sys.stdin
    sys.stdin = io.StringIO('{}')
    try:
        exec(compile(head, spec.origin, 'exec'), ns)  # noqa: S102  (KIND table + conv_of only; no output produced)
    finally:
        sys.stdin = stdin
    return ns['KIND'], ns['conv_of']


class PropCase:
    def __init__(self, rng, gen, cids):
        self.rng, self.gen, self.cids = rng, gen, cids
        self.names = {}
        self.atoms = {'': 0}
        self.tab = []          # [(VStruct literal, tree literal)]
        self.nested = []       # [(canonical dump, uid)]

    def nid(self, s):
        if s == X.xs.QN_TYPE.text:
            return 0
        if s not in self.names:
            self.names[s] = len(self.names) + 1
        return self.names[s]

    def atom(self, s):
        if s is None:
            s = ''
        if s not in self.atoms:
            self.atoms[s] = len(self.atoms)
        return self.atoms[s]

    # ---- xml -> model tree
    def qtext(self, el, text):
        """canonical form of a prefix:local text"""
        try:
            from sdc11073.namespaces import text_to_qname
            return text_to_qname(text, el.nsmap).text
        except Exception:  # noqa: BLE001
            return text

    def tree(self, el, own=None):
        """own = (slot kind, name, mode) of the property under test: how ITS slot is tokenised"""
        attrs = []
        for k, v in el.attrib.items():
            if k == X.xs.QN_TYPE.text:
                cls = self.class_of_type(el, v)
                attrs.append((0, [cls]))
                continue
            if own and own[0] == 'a' and own[1] == k:
                attrs.append((self.nid('@' + k), self.tok(el, v, own[2]) if own[2] != 'scalar' else [self.atom(v)]))
            else:
                attrs.append((self.nid('@' + k), [self.atom(v)]))
        text = el.text
        if own and own[0] == 't':
            toks = self.tok(el, text, own[2]) if text not in (None, '') else []
        else:
            toks = [self.atom(text)] if text not in (None, '') else []
        kids = []
        for ch in el:
            if not isinstance(ch.tag, str):
                continue
            sub_own = ('t', None, own[2]) if own and own[0] == 'e' and own[1] == ch.tag else None
            kids.append(self.tree(ch, sub_own))
        return ['N', self.nid(el.tag), attrs, toks or None, kids]

    def tok(self, el, text, mode):
        if mode == 'words':
            return [self.atom(w) for w in text.split(' ') if w]
        if mode == 'wsplit':
            return [self.atom(w) for w in text.split()]
        if mode == 'qwords':
            return [self.atom(self.qtext(el, w)) for w in text.split()]
        if mode == 'qname':
            return [self.atom(self.qtext(el, text))]
        if mode == 'curts':
            return [1]
        return [self.atom(text)] if text != '' else []

    def class_of_type(self, el, text):
        from sdc11073.namespaces import text_to_qname
        qn = text_to_qname(text, el.nsmap)
        for key, cid in self.cids.items():
            c = CLASS_BY_KEY.get(key)
            if c is not None and getattr(c, 'NODETYPE', None) == qn and not key.startswith('soapenvelope'):
                return cid
        return 999999


CLASS_BY_KEY = {X.class_key(c): c for c in X.all_classes()}
OLD_SENTINEL = 'VAtom 424242'      # stands for "the object the member held before update_from_node"


def lit_tree(t):
    _, tag, attrs, text, kids = t
    a = '; '.join(f'({n}%N, [' + '; '.join(str(z) for z in v) + '])' for n, v in attrs)
    x = 'None' if text is None else '(Some [' + '; '.join(str(z) for z in text) + '])'
    return f'(Node {tag}%N [{a}] {x} [' + '; '.join(lit_tree(k) for k in kids) + '])'


def run_props():
    rng = random.Random(req['seed'])
    kind_tab, conv_of = load_kind_table()
    classes = X.all_classes()
    cids = {X.class_key(c): i + 1 for i, c in enumerate(classes)}
    decls = []
    for c in classes:
        if X.class_key(c).startswith('soapenvelope.') or c is X.mex_types.Metadata:
            continue        # SOAP envelope: not in the anchors; mex Metadata tells its sections apart by Dialect in its own from_node
        try:
            for name, p in X.class_props(c):
                decls.append((c, name, p))
        except X.BrokenClass:
            continue
    by_cls = {}
    for d in decls:
        by_cls.setdefault(type(d[2]).__name__, []).append(d)
    cases = []
    hist = {}
    order = sorted(by_cls)
    for i in range(req['count']):
        tn = order[i % len(order)]
        owner, name, p = rng.choice(by_cls[tn])
        try:
            case = one_prop_case(rng, owner, name, p, kind_tab[tn], conv_of(p), cids)
        except G.Skip:
            case = None
        except Exception as ex:  # noqa: BLE001
            case = {'crash': f'{X.class_key(owner)}.{name}: ' + traceback.format_exc()[-700:]}
        if case is not None:
            case['descriptor'] = tn
            case['member'] = f'{X.class_key(owner)}.{name}'
            cases.append(case)
            hist[tn] = hist.get(tn, 0) + 1
    return {'cases': cases, 'hist': hist, 'descriptor_classes': len(order)}


def b(x):
    return 'true' if x else 'false'


def one_prop_case(rng, owner, name, p, kind, conv, cids):
    gen = G.Gen(rng, max_depth=1, max_list=2)
    pc = PropCase(rng, gen, cids)
    is_attr = isinstance(p, xs._AttributeBase)  # noqa: SLF001
    if is_attr:
        an = p._attribute_name  # noqa: SLF001
        slot_name = an.text if isinstance(an, etree.QName) else an
        slot_lit = f'(Some {pc.nid("@" + slot_name)}%N)'
    else:
        qn = p._sub_element_name  # noqa: SLF001
        slot_name = None if qn is None else (qn.text if isinstance(qn, etree.QName) else str(qn))
        slot_lit = 'None' if slot_name is None else f'(Some {pc.nid(slot_name)}%N)'
    if slot_name is None and kind not in ('KText', 'KTextList', 'KQNameList'):
        raise G.Skip('node itself')
    mode = {'KAttrList': 'words', 'KTextList': 'words', 'KQNameList': 'qwords', 'KCurTs': 'curts'}.get(kind, 'scalar')
    if isinstance(p, (xs.QNameAttributeProperty, xs.NodeTextQNameProperty, xs.NodeEnumQNameProperty)):
        mode = 'qname'
    if kind == 'KTextList':
        mode = 'wsplit'
    own = ('a', slot_name, mode) if is_attr else (('t', None, mode) if slot_name is None else ('e', slot_name, mode))
    vc = getattr(p, 'value_class', None)
    vid = cids.get(X.class_key(vc), 0) if isinstance(vc, type) and issubclass(vc, X.BASES) else 0
    d = p._default_py_value  # noqa: SLF001
    plit = (f'(mkProp {kind} {slot_lit} {conv} {b(p.is_optional)} {b(d is not None)} {b(d is not None and X.is_mutable(d))} '
            f'{vid}%N {b(min_len_flag(p))})')
    # ---- the value
    inst = X.construct(owner)
    r = rng.random()
    if r < 0.2:
        v = None
    else:
        part = gen.particle(gen.ctype_of(owner), p)
        v = gen.value(owner, name, p, 0, not p.is_optional, part, 0, 2)
        fz = [x for _, x in falsy_values(p) if not isinstance(x, list)]
        if fz and rng.random() < 0.35:       # falsy but present: False, 0, 0.0, Decimal 0, '', first enum member
            v = rng.choice(fz)
    inst.__dict__[p._local_var_name] = v  # noqa: SLF001
    # ---- the node: empty, or with unrelated content
    node = etree.Element(etree.QName(X.VERIF_NS, 'Owner'), nsmap=dict(X.NSMAP, vx=X.VERIF_NS))
    if rng.random() < 0.5:
        node.set('zzOther', 'o1')
        etree.SubElement(node, etree.QName(X.VERIF_NS, 'Other')).text = 'o2'
    if rng.random() < (0.6 if v is None else 0.25) and kind in ('KAttr', 'KAttrList') and mode in ('scalar', 'words') and conv in ('CStr', 'COther') \
            and not isinstance(p, (xs.BooleanAttributeProperty, xs.DecimalListAttributeProperty)):
        node.set(p._attribute_name, 'old')  # noqa: SLF001
    if rng.random() < (0.6 if v is None else 0.25) and kind in ('KText', 'KTextList') and slot_name is not None and mode in ('scalar', 'wsplit') \
            and conv in ('CStr', 'COther'):
        etree.SubElement(node, slot_name).text = 'old'
    before = pc.tree(etree.fromstring(etree.tostring(node)), own)

    def to_val(x, reading=False):
        if x is None:
            return 'VNone'
        if kind in ('KAttr', 'KCurTs', 'KText'):
            if kind == 'KCurTs':
                return 'VAtom 1'
            if isinstance(x, etree.QName):
                return f'VAtom {pc.atom(x.text)}'
            if hasattr(x, 'value') and isinstance(getattr(x, 'value'), etree.QName):
                return f'VAtom {pc.atom(x.value.text)}'
            if isinstance(p, xs.DateOfBirthProperty):
                return f'VAtom {pc.atom(str(x))}'
            return f'VAtom {pc.atom(p._converter.to_xml(x))}'  # noqa: SLF001
        if kind in ('KAttrList',):
            return 'VWords [' + '; '.join(str(pc.atom(p._converter.elem_to_xml(e))) for e in x) + ']'  # noqa: SLF001
        if kind in ('KTextList', 'KElemTextList'):
            return 'VWords [' + '; '.join(str(pc.atom(e if isinstance(e, str) or e is None else str(e))) for e in x) + ']'
        if kind == 'KQNameList':
            return 'VWords [' + '; '.join(str(pc.atom(e.text)) for e in x) + ']'
        if kind in ('KSub', 'KSubNonEmpty'):
            return struct_val(x)
        if kind == 'KSubList':
            return 'VList [' + '; '.join(struct_val(e) for e in x) + ']'
        return 'VOpaque [' + '; '.join(lit_tree(pc.tree(etree.fromstring(etree.tostring(e)))) for e in x) + ']'

    def struct_val(x):
        if d is not None and x is d:
            return 'VDflt'
        dump = X.canon(x)
        for cd, lit in pc.nested:
            if cd == dump:
                return lit
        uid = len(pc.nested) + 1
        empty = hasattr(x, 'is_empty') and x.is_empty()
        lit = f'(VStruct {cids.get(X.class_key(type(x)), 0)}%N [{"VNone" if empty else f"VAtom {uid}"}])'
        pc.nested.append((dump, lit))
        t = pc.tree(etree.fromstring(etree.tostring(X.serialise(x, etree.QName(X.VERIF_NS, 'Nested')))))
        pc.tab.append(f'({lit}, {lit_tree(t)})')
        return lit

    vlit = to_val(v)
    orig = etree.tostring(node)
    try:
        p.update_xml_value(inst, node)
        read_node = etree.fromstring(etree.tostring(node))
        out_tree = f'(Some {lit_tree(pc.tree(read_node, own))})'
        wrote = True
    except Exception:  # noqa: BLE001   update_xml_value raises (mandatory value missing, ...): model says None
        read_node = etree.fromstring(orig)      # the model reads the unchanged input in that case
        out_tree = 'None'
        wrote = False
    absent = slot_name is not None and not is_attr and read_node.find(slot_name) is None

    def read_lit(x):
        if kind in ('KSub', 'KSubNonEmpty', 'KText') and d is not None and absent and x is not None:
            return 'VDflt'       # the declared default (the object itself today, a copy of it once repaired)
        return to_val(x, True)

    try:
        rv = p.get_py_value_from_node(X.construct(owner), read_node)
        out_val = f'(Some ({read_lit(rv)}))'
    except Exception:  # noqa: BLE001
        out_val = 'None'
    # ---- attribute access (descriptor.__get__) on an instance that stores what the reader returned
    get_case = None
    if out_val != 'None':
        holder = X.construct(owner)
        holder.__dict__[p._local_var_name] = rv  # noqa: SLF001
        im = p._implied_py_value  # noqa: SLF001
        try:
            pub = p.__get__(holder, owner)
            plit_pub = read_lit(pub) if not (pub is im and im is not None and rv is None) else to_val(im)
            wrong = None
            if rv is not None and X.canon(pub) != X.canon(rv):
                wrong = {'stored': short(str(X.canon(rv)), 200), 'attribute access': short(str(X.canon(pub)), 200),
                         'implied': short(str(X.canon(im)), 200), 'node': short(etree.tostring(read_node))}
            elif rv is None and im is not None and X.canon(pub) != X.canon(im):
                wrong = {'stored': 'None', 'attribute access': short(str(X.canon(pub)), 200),
                         'implied': short(str(X.canon(im)), 200)}
            get_case = {'ginput': f'({plit}, {"None" if im is None else "(Some (" + to_val(im) + "))"}, {b(not rv)}, '
                                  f'{read_lit(rv)})',
                        'gout': plit_pub, 'wrong': wrong, 'falsy_present': rv is not None and not rv,
                        'has_implied': im is not None}
        except Exception:  # noqa: BLE001
            get_case = None
    # ---- update_from_node on an instance whose member already holds a value (`old`), against a fresh instance
    try:
        old_obj = gen.value(owner, name, p, 0, True, gen.particle(gen.ctype_of(owner), p), 0, 2)
    except Exception:  # noqa: BLE001
        old_obj = None
    if old_obj is None:
        old_obj = ['old'] if isinstance(p, (xs._ElementListProperty, xs._AttributeListBase)) else 'old'  # noqa: SLF001
    populated, fresh_inst = X.construct(owner), X.construct(owner)
    populated.__dict__[p._local_var_name] = old_obj  # noqa: SLF001
    stale = None
    try:
        p.update_from_node(populated, read_node)
        got = populated.__dict__.get(p._local_var_name)  # noqa: SLF001
        try:
            p.update_from_node(fresh_inst, etree.fromstring(etree.tostring(read_node)))
            fresh_got = fresh_inst.__dict__.get(p._local_var_name)  # noqa: SLF001
            differs = X.canon(got) != X.canon(fresh_got)
        except Exception:  # noqa: BLE001
            fresh_got, differs = None, True
        if differs:
            stale = {'populated_with': short(str(X.canon(old_obj)), 200), 'after_update': short(str(X.canon(got)), 200),
                     'fresh_instance': short(str(X.canon(fresh_got)), 200), 'kept_old_object': got is old_obj,
                     'node': short(etree.tostring(read_node))}
        upd = f'(Some ({OLD_SENTINEL if differs and got is old_obj else read_lit(got)}))'
    except Exception:  # noqa: BLE001
        upd = 'None'
        try:
            p.update_from_node(fresh_inst, etree.fromstring(etree.tostring(read_node)))
            stale = {'populated_with': short(str(X.canon(old_obj)), 200), 'after_update': 'raises',
                     'fresh_instance': 'does not raise', 'node': short(etree.tostring(read_node))}
        except Exception:  # noqa: BLE001
            pass
    tab = "; ".join(pc.tab)
    utree = out_tree[len('(Some '):-1] if wrote else lit_tree(before)
    return {'input': f'({plit}, [{tab}], {vlit}, {lit_tree(before)})',
            'tree': out_tree, 'val': out_val, 'kind': kind, 'wrote': wrote, 'none_value': v is None,
            'uinput': f'({plit}, [{tab}], {OLD_SENTINEL}, {utree})', 'upd': upd, 'stale': stale, 'get': get_case,
            'read_none': out_val == '(Some (VNone))'}


if req['stream'] == 'props':
    print(json.dumps(run_props()))


# ------------------------------------------------------------------------------------------------ own
# who owns an lxml element: the opaque members (ext:Extension, wsa:ReferenceParameters / wsa:Metadata, any) under
# sequences of assign / parse / read / write; observation after every operation = content of every document and of
# the value (vocabulary of coq/XmlStruct/Instance.v [run_own]).  The purity clauses are evaluated here directly.
OPAQUE = (xs.ExtensionNodeProperty, xs.AnyEtreeNodeListProperty, xs.AnyEtreeNodeProperty)


def lit_trees(ts):
    return '(@nil tree)' if not ts else '[' + '; '.join(ts) + ']'


def run_own():
    rng = random.Random(req['seed'])
    classes = X.all_classes()
    cids = {X.class_key(c): i + 1 for i, c in enumerate(classes)}
    by_cls = {}
    for c in classes:
        if X.class_key(c).startswith('soapenvelope.'):
            continue
        try:
            for name, p in X.class_props(c):
                if isinstance(p, OPAQUE):
                    by_cls.setdefault(type(p).__name__, []).append((c, name, p))
        except X.BrokenClass:
            continue
    order = sorted(by_cls)
    cases, hist = [], {}
    for i in range(req['count']):
        tn = order[i % len(order)] if rng.random() < 0.5 else 'ExtensionNodeProperty'
        owner, name, p = rng.choice(by_cls[tn])
        try:
            case = one_own_case(rng, owner, name, p, cids)
        except Exception:  # noqa: BLE001
            case = {'crash': f'{X.class_key(owner)}.{name}: ' + traceback.format_exc()[-700:]}
        case['descriptor'] = tn
        case['member'] = f'{X.class_key(owner)}.{name}'
        cases.append(case)
        hist[tn] = hist.get(tn, 0) + 1
    return {'cases': cases, 'hist': hist}


def one_own_case(rng, owner, name, p, cids):
    gen = G.Gen(rng, max_depth=1, max_list=2)
    pc = PropCase(rng, gen, cids)
    qn = p._sub_element_name  # noqa: SLF001
    local = p._local_var_name  # noqa: SLF001
    inst = X.construct(owner)
    inst.__dict__[local] = None
    docs, ops, obs, obs_plain, why = [], [], [], [], []
    op_hist = {}

    def container(doc):
        return doc if qn is None else doc.find(qn)

    def kids(doc):
        c = container(doc)
        return [] if c is None else [k for k in c if isinstance(k.tag, str)]

    def snapshot():
        v = inst.__dict__.get(local)
        v = [] if v is None else ([v] if isinstance(v, etree._Element) else list(v))  # noqa: SLF001
        return [[repr(X.canon_xml(k)) for k in kids(dd)] for dd in docs], [repr(X.canon_xml(k)) for k in v], \
               [[lit_tree(pc.tree(k)) for k in kids(dd)] for dd in docs], [lit_tree(pc.tree(k)) for k in v]

    def new_elements():
        return [gen.any_element() for _ in range(rng.choice([0, 1, 1, 2, 2, 3]))]

    n_ops = rng.randint(2, 8)
    prev_docs, prev_val = [], []
    for step_no in range(n_ops):
        r = rng.random()
        if r < 0.2 or (step_no == 0 and r < 0.6):
            els = new_elements()
            ops.append(('ONew', 'ONew ' + lit_trees([lit_tree(pc.tree(e)) for e in els])))
            inst.__dict__[local] = xs.ExtensionLocalValue(els) if isinstance(p, xs.ExtensionNodeProperty) else els
        elif r < 0.35:
            els = new_elements()
            root = etree.Element(etree.QName(X.VERIF_NS, 'Owner'), nsmap=dict(X.NSMAP, vx=X.VERIF_NS))
            if els:
                (root if qn is None else etree.SubElement(root, qn)).extend(els)
            docs.append(etree.fromstring(etree.tostring(root)))
            ops.append(('OParse', 'OParse ' + lit_trees([lit_tree(pc.tree(e)) for e in kids(docs[-1])])))
        elif r < 0.55 and docs:
            dno = rng.randrange(len(docs))
            inst.__dict__[local] = p.get_py_value_from_node(inst, docs[dno])
            ops.append(('ORead', f'ORead {dno}%nat'))
        else:
            node = etree.Element(etree.QName(X.VERIF_NS, 'Owner'), nsmap=dict(X.NSMAP, vx=X.VERIF_NS))
            try:
                p.update_xml_value(inst, node)
            except ValueError:       # mandatory member without a value: nothing written
                node = etree.Element(etree.QName(X.VERIF_NS, 'Owner'), nsmap=dict(X.NSMAP, vx=X.VERIF_NS))
            docs.append(node)
            ops.append(('OWrite', 'OWrite'))
        op = ops[-1][0]
        op_hist[op] = op_hist.get(op, 0) + 1
        d_plain, v_plain, d_lit, v_lit = snapshot()
        obs.append('(' + ('(@nil (list tree))' if not d_lit else '[' + '; '.join(lit_trees(x) for x in d_lit) + ']')
                   + ', ' + lit_trees(v_lit) + ')')
        obs_plain.append({'op': ops[-1][1] if op in ('ORead', 'OWrite') else f'{op} ({len(els)} elements)',
                          'documents': d_plain, 'value': v_plain})
        # ---- the clauses, on the implementation's own trace
        if d_plain[:len(prev_docs)] != prev_docs:
            k = next(j for j, (a, b) in enumerate(zip(prev_docs, d_plain)) if a != b)
            why.append(('an existing document changed', f'step {step_no} ({op}) changed document {k}: '
                        f'{len(prev_docs[k])} -> {len(d_plain[k])} elements'))
        if op == 'OWrite':
            if v_plain != prev_val:
                why.append(('writing changed the value that was written', f'step {step_no}'))
            if d_plain[-1] != prev_val:
                why.append(('the written document does not hold the content of the value', f'step {step_no}'))
        if op == 'ORead' and v_plain != d_plain[dno]:
            why.append(('the value read is not the content of the document', f'step {step_no}'))
        prev_docs, prev_val = d_plain, v_plain
    return {'input': '[' + '; '.join(o[1] for o in ops) + ']', 'obs': '[' + '; '.join(obs) + ']',
            'trace': obs_plain, 'why': why, 'ops': op_hist,
            'two_writes_of_nonempty_value': any(a[0] == b[0] == 'OWrite' and t['value'] for a, b, t in zip(ops, ops[1:], obs_plain[1:])),
            'write_of_value_read_from_document': any(a[0] == 'ORead' and b[0] == 'OWrite' and t['value'] for a, b, t in zip(ops, ops[1:], obs_plain[1:]))}


if req['stream'] == 'own':
    print(json.dumps(run_own()))
