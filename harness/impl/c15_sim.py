"""C15: discrete-event simulation of ONE WS-Discovery node on a virtual clock.

What is real:  WSDiscovery (every API call, every handler), NetworkingThread.__init__ / start / schedule_stop / join /
               add_outbound_message / _repeated_enqueue_msg / _run_send / _send_msg / _run_recv / _recv_messages /
               _run_q_read, the message factory and the (validating) message reader.
What is faked: the modules `socket`, `selectors`, `threading`, `queue`, `time`, `random` as seen by
               sdc11073.wsdiscovery.networkingthread, and `time`, `random` as seen by wsdimpl:
  * threads are real Python threads that run in lock step: exactly one holds the baton; sleep / a blocking queue get /
    select / join park the caller until the virtual clock reaches its wake-up time (or until it is notified);
  * sockets record every sendto(); a datagram sent to the multicast group is looped back to the node's own multicast
    socket (IP_MULTICAST_LOOP is on by default and the code does not switch it off), datagrams of peers are injected by
    the driver into the multicast or the unicast socket;
  * the two random draws of every schedule come from a seeded generator (extremes over-represented) and are recorded.

The simulation is deterministic (one runnable thread at a time, FIFO among equal wake-up times).
"""
import collections
import logging
import queue as _queue
import random as _random
import re
import selectors as _selectors
import socket as _socket
import threading as _threading
import types as _types

from lxml import etree

from sdc11073.namespaces import default_ns_helper as nsh
from sdc11073.wsdiscovery import networkingthread as nt
from sdc11073.wsdiscovery import wsdimpl
from sdc11073.wsdiscovery.common import MULTICAST_IPV4_ADDRESS, message_reader
from sdc11073.xml_types import wsd_types
from sdc11073.xml_types.addressing_types import HeaderInformationBlock

INF = float('inf')
T0 = 1000.0
MY_IP = '10.0.0.1'
REAL_NT = nt.NetworkingThread
KINDS = ('Hello', 'Bye', 'Probe', 'Resolve', 'ProbeMatches', 'ResolveMatches')


class SimAbort(BaseException):
    """raised inside every simulated thread when the simulation is given up (step limit, dead lock)"""


# ----------------------------------------------------------------------------------------------- scheduler
class SimThread:
    def __init__(self, sim, target, name):
        self.sim, self.target, self.name = sim, target, name
        self.sem = _threading.Semaphore(0)
        self.state = 'new'
        self.wake = INF
        self.order = 0
        self.waiting_on = None
        self.real = None

    def start(self):
        self.state, self.wake, self.order = 'parked', self.sim.now_us, self.sim.next_order()
        self.sim.threads.append(self)
        self.real = _threading.Thread(target=self._body, name='sim.' + str(self.name), daemon=True)
        self.real.start()

    def _body(self):
        try:
            self.sim.acquire(self)
            self.target()
        except SimAbort:
            pass
        except BaseException as e:  # noqa: BLE001
            self.sim.errors.append(f'thread {self.name}: {type(e).__name__}: {e}')
        finally:
            self.state = 'done'
            self.sim.notify(self)
            try:
                self.sim.dispatch(None)
            except SimAbort:
                pass

    def join(self, timeout=None):
        while self.state != 'done':
            self.sim.wait(self, timeout)
            if timeout is not None:
                break

    def is_alive(self):
        return self.state not in ('new', 'done')


class Sim:
    def __init__(self, max_steps=400000):
        self.now_us = 0
        self.threads = []
        self.errors = []
        self.dead = None
        self.steps = 0
        self.max_steps = max_steps
        self._order = 0
        self.on_abort = []
        self.main = SimThread(self, None, 'app')
        self.main.state = 'running'
        self.threads.append(self.main)
        self.cur = self.main

    def next_order(self):
        self._order += 1
        return self._order

    # -- clock
    def time(self):
        return T0 + self.now_us / 1e6

    def sleep(self, d):
        d = float(d)
        self.park(self.now_us + (max(1, int(round(d * 1e6))) if d > 0 else 0))   # a positive sleep always advances the clock

    # -- baton
    def abort(self, why):
        if self.dead is None:
            self.dead = why
            for f in self.on_abort:
                f()
            for t in self.threads:
                t.sem.release()

    def acquire(self, t):
        if not t.sem.acquire(timeout=120):
            self.abort('a simulated thread was not scheduled for 120 s (harness)')
        if self.dead is not None:
            raise SimAbort

    def dispatch(self, me):
        if self.dead is not None:
            raise SimAbort
        self.steps += 1
        if self.steps > self.max_steps:
            self.abort(f'more than {self.max_steps} scheduling steps')
            raise SimAbort
        cands = [t for t in self.threads if t.state == 'parked' and t.wake < INF]
        if not cands:
            if any(t.state == 'parked' for t in self.threads):
                self.abort('dead lock: every thread waits without a timeout')
                raise SimAbort
            return      # the last thread ended
        nxt = min(cands, key=lambda t: (t.wake, t.order))
        self.now_us = max(self.now_us, nxt.wake)
        nxt.state = 'running'
        self.cur = nxt
        if nxt is me:
            return
        nxt.sem.release()
        if me is not None:
            self.acquire(me)

    def park(self, wake, waiting_on=None):
        me = self.cur
        me.state, me.wake, me.order, me.waiting_on = 'parked', wake, self.next_order(), waiting_on
        try:
            self.dispatch(me)
        finally:
            me.waiting_on = None

    def wait(self, obj, timeout):
        self.park(INF if timeout is None else self.now_us + max(0, int(round(float(timeout) * 1e6))), obj)

    def notify(self, obj):
        for t in self.threads:
            if t.state == 'parked' and t.waiting_on is obj and t.wake > self.now_us:
                t.wake = self.now_us


# ----------------------------------------------------------------------------------------------- fake modules
class FakeTimeMod:
    def __init__(self, sim):
        self.time = sim.time
        self.monotonic = lambda: sim.time() - 777.0     # another epoch than time(): mixing the two clocks shows
        self.sleep = sim.sleep


class FakeThreadingMod:
    Event = _threading.Event

    def __init__(self, sim):
        self._sim = sim

    def Thread(self, group=None, target=None, name=None, args=(), kwargs=None, daemon=None):  # noqa: N802
        if args or kwargs:
            return SimThread(self._sim, lambda: target(*args, **(kwargs or {})), name)
        return SimThread(self._sim, target, name)


def _mk_queue_class(base, sim):
    class SimQ(base):
        on_get = None

        def get(self, block=True, timeout=None):
            if block and self.empty():
                sim.wait(self, timeout)
            if self.empty():
                raise _queue.Empty
            item = base.get(self, block=False)
            if self.on_get is not None:
                self.on_get(item)
            return item

        def put(self, item, block=True, timeout=None):
            base.put(self, item, block=False)
            sim.notify(self)

    return SimQ


class FakeQueueMod:
    Empty = _queue.Empty
    Full = _queue.Full

    def __init__(self, sim):
        self.Queue = _mk_queue_class(_queue.Queue, sim)
        self.PriorityQueue = _mk_queue_class(_queue.PriorityQueue, sim)


class FakeSocket:
    def __init__(self, net, family, type_, proto):
        self.net, self.family, self.type, self.proto = net, family, type_, proto
        self.opts = []
        self.groups = []
        self.name = ('0.0.0.0', 0)
        self.inbox = collections.deque()
        self.closed = False
        net.sockets.append(self)

    def setsockopt(self, level, opt, val):
        self.opts.append((level, opt, val))
        if level == _socket.IPPROTO_IP and opt == _socket.IP_ADD_MEMBERSHIP:
            self.groups.append(_socket.inet_ntoa(val[:4]))

    def bind(self, addr):
        host, port = addr
        self.name = (host, port or self.net.next_port())

    def getsockname(self):
        return self.name

    def setblocking(self, flag):
        pass

    def fileno(self):
        return -1

    def close(self):
        self.closed = True

    def sendto(self, data, dest):
        if self.closed:
            raise OSError('socket is closed')
        self.net.transmit(self, bytes(data), dest)
        return len(data)

    def recvfrom(self, bufsize):
        if not self.inbox:
            raise BlockingIOError('nothing to read')
        return self.inbox.popleft()


class Net:
    def __init__(self, sim):
        self.sim = sim
        self.sockets = []
        self.tx = []
        self._port = 50000

    def next_port(self):
        self._port += 1
        return self._port

    def transmit(self, sock, data, dest):
        self.tx.append({'t': self.sim.now_us, 'data': data, 'dest': [dest[0], dest[1]]})
        if dest[0] == MULTICAST_IPV4_ADDRESS:
            self.deliver(data, sock.name, True, dest[1])

    def deliver(self, data, src, multicast, port):
        for s in self.sockets:
            if s.closed:
                continue
            if (multicast and MULTICAST_IPV4_ADDRESS in s.groups and s.name[1] == port) or \
                    (not multicast and not s.groups and s.name[1] == port):
                s.inbox.append((data, src))
        self.sim.notify(self)


class FakeSocketMod:
    def __init__(self, net):
        self._net = net

    def __getattr__(self, name):
        return getattr(_socket, name)

    def socket(self, family=_socket.AF_INET, type=_socket.SOCK_STREAM, proto=0):  # noqa: A002
        return FakeSocket(self._net, family, type, proto)


class FakeSelector:
    def __init__(self, sim, net):
        self.sim, self.net = sim, net
        self.reg = []

    def register(self, fileobj, events, data=None):
        self.reg.append((fileobj, events))

    def unregister(self, fileobj):
        self.reg = [(s, e) for s, e in self.reg if s is not fileobj]

    def _ready(self):
        return [(_types.SimpleNamespace(fileobj=s, fd=-1, events=e, data=None), e) for s, e in self.reg
                if not s.closed and ((e & _selectors.EVENT_WRITE) or ((e & _selectors.EVENT_READ) and s.inbox))]

    def select(self, timeout=None):
        r = self._ready()
        if r or timeout == 0:
            return r
        self.sim.wait(self.net, timeout)
        return self._ready()

    def close(self):
        self.reg = []


class FakeSelectorsMod:
    EVENT_READ = _selectors.EVENT_READ
    EVENT_WRITE = _selectors.EVENT_WRITE

    def __init__(self, sim, net):
        self._sim, self._net = sim, net

    def DefaultSelector(self):  # noqa: N802
        return FakeSelector(self._sim, self._net)


class ScheduleRandom:
    """the two draws of _repeated_enqueue_msg; extremes over-represented; every draw is recorded"""

    def __init__(self, seed):
        self.rng = _random.Random(seed)
        self.current = None
        self.unexpected = []

    def _pick(self, a, b):
        x = self.rng.random()
        return a if x < 0.15 else b if x < 0.3 else self.rng.randint(a, b)

    def randint(self, a, b):
        v = self._pick(a, b)
        (self.current if self.current is not None else self.unexpected).append(['randint', a, b, v])
        return v

    def randrange(self, a, b=None):
        if b is None:
            a, b = 0, a
        v = self._pick(a, b - 1)
        (self.current if self.current is not None else self.unexpected).append(['randrange', a, b, v])
        return v


class InstanceIdRandom:
    def __init__(self):
        self.n = 100

    def randint(self, a, b):
        self.n += 1
        return self.n


# ----------------------------------------------------------------------------------------------- messages of peers
NS_T = 'http://t.example/types'
MID_RE = re.compile(rb'MessageID>\s*([^<\s]+)\s*</')


def qn(local):
    return etree.QName(NS_T, local)


def mk_scopes(texts):
    if texts is None:
        return None
    s = wsd_types.ScopesType()
    s.text.extend(texts)
    return s


def mid_urn(mid):
    return f'urn:uuid:00000000-0000-0000-0000-{mid:012d}'


def local_epr(i):
    return f'urn:uuid:11111111-0000-0000-0000-{i:012d}'


def peer_epr(i):
    return f'urn:uuid:22222222-0000-0000-0000-{i:012d}'


def fill(payload, svc):
    payload.EndpointReference.Address = svc['epr']
    payload.Types = None if svc.get('types') is None else [qn(t) for t in svc['types']]
    payload.Scopes = mk_scopes(svc.get('scopes'))
    if svc.get('xaddrs'):
        payload.XAddrs.extend(svc['xaddrs'])
    payload.MetadataVersion = svc.get('mdv', 1)


def mk_incoming(mid, m):
    """datagram of a peer; m: {'kind': hello|bye|probe|resolve|probematches|resolvematches, ...}"""
    kind = m['kind']
    relates = None
    appseq = True
    if kind == 'hello':
        payload = wsd_types.HelloType()
        fill(payload, m['svc'])
        to = wsdimpl.ADDRESS_ALL
    elif kind == 'bye':
        payload = wsd_types.ByeType()
        payload.EndpointReference.Address = m['epr']
        to = wsdimpl.ADDRESS_ALL
    elif kind == 'probe':
        payload = wsd_types.ProbeType()
        payload.Types = None if m.get('types') is None else [qn(t) for t in m['types']]
        to, appseq = wsdimpl.ADDRESS_ALL, False
    elif kind == 'resolve':
        payload = wsd_types.ResolveType()
        payload.EndpointReference.Address = m['epr']
        to, appseq = wsdimpl.ADDRESS_ALL, False
    elif kind == 'probematches':
        payload = wsd_types.ProbeMatchesType()
        for svc in m['matches']:
            pm = wsd_types.ProbeMatchType()
            fill(pm, svc)
            payload.ProbeMatch.append(pm)
        to, relates = wsdimpl.WSA_ANONYMOUS, mid_urn(999999)
    elif kind == 'resolvematches':
        payload = wsd_types.ResolveMatchesType()
        payload.ResolveMatch = wsd_types.ResolveMatchType()
        fill(payload.ResolveMatch, m['svc'])
        to, relates = wsdimpl.WSA_ANONYMOUS, mid_urn(999999)
    else:
        raise SystemExit(f'unknown message kind {kind}')
    inf = HeaderInformationBlock(action=payload.action, addr_to=to, message_id=mid_urn(mid), relates_to=relates)
    cm = wsdimpl._mk_wsd_soap_message(inf, payload)
    if appseq:
        aps = wsd_types.AppSequenceType()
        aps.InstanceId = 7
        aps.MessageNumber = 1
        cm.p_msg.add_header_element(aps.as_etree_node(nsh.WSD.tag('AppSequence'), ns_map=nsh.partial_map(nsh.WSD)))
    return cm.serialize()


def pset_name(p):
    if p is nt.MULTICAST_REPEAT_PARAMS:
        return 'M'
    if p is nt.UNICAST_REPEAT_PARAMS:
        return 'U'
    return 'other'


def pvals(p):
    try:
        return [p.max_initial_delay_ms, p.repeat, p.min_delay_ms, p.max_delay_ms, p.upper_delay_ms]
    except AttributeError:
        return None


def msg_kind(created_message):
    return str(created_message.p_msg.header_info_block.Action).rsplit('/', 1)[-1]


# ----------------------------------------------------------------------------------------------- the node
class Node:
    """one WSDiscovery instance inside the simulation + everything that is observed"""

    def __init__(self, seed, cap):
        self.sim = Sim()
        self.net = Net(self.sim)
        self.cap = cap
        self.rnd = ScheduleRandom(seed)
        self.own_ids = []          # message ids of own messages in the order of creation
        self.outs = []             # one record per add_outbound_message call
        self.events = []           # ['op', name] | ['out', id] | ['in', id, acted, own] | ['restart']
        self.handled = []          # handle_received_message calls
        self.nts = []
        self.notes = []
        self._last_in = None
        self.saved = {}

    # -- module rebinding
    def __enter__(self):
        node = self

        class TracedNT(REAL_NT):
            def __init__(self, *a, **kw):
                super().__init__(*a, **kw)
                node.new_thread(self)

            def add_outbound_message(self, msg, addr, port, repeat_params):
                rec, before = node.begin_out(self, msg, addr, port, repeat_params)
                try:
                    super().add_outbound_message(msg, addr, port, repeat_params)
                finally:
                    node.end_out(self, rec, before)

        fake = {'time': FakeTimeMod(self.sim), 'threading': FakeThreadingMod(self.sim), 'queue': FakeQueueMod(self.sim),
                'socket': FakeSocketMod(self.net), 'selectors': FakeSelectorsMod(self.sim, self.net), 'random': self.rnd,
                'NetworkingThread': TracedNT}
        for k, v in fake.items():
            self.saved[('nt', k)] = getattr(nt, k)
            setattr(nt, k, v)
        self.saved[('wsd', 'time')] = wsdimpl.time
        self.saved[('wsd', 'random')] = wsdimpl.random
        wsdimpl.time = fake['time']
        wsdimpl.random = InstanceIdRandom()
        self.sim.on_abort.append(self._quit_all)
        return self

    def __exit__(self, *exc):
        self.sim.abort('scenario finished')        # releases whatever thread is still parked
        for (m, k), v in self.saved.items():
            setattr(nt if m == 'nt' else wsdimpl, k, v)
        return False

    def _quit_all(self):
        for t in self.nts:
            for ev in ('_quit_recv_event', '_quit_send_event'):
                e = getattr(t, ev, None)
                if e is not None:
                    e.set()

    # -- observation hooks
    def canon(self, mid):
        if mid in self.own_ids:
            return -(self.own_ids.index(mid) + 1)
        m = re.fullmatch(r'urn:uuid:00000000-0000-0000-0000-(\d{12})', mid or '')
        return int(m.group(1)) if m else 900000 + (hash(mid) % 1000)

    def new_thread(self, t):
        if self.cap is not None:
            try:
                t._known_message_ids = type(t._known_message_ids)(t._known_message_ids, maxlen=self.cap)
            except Exception as e:  # noqa: BLE001
                self.notes.append(f'capacity not applied: {type(e).__name__}')
        if self.nts:
            self.events.append(['restart'])
        self.nts.append(t)
        t._read_queue.on_get = lambda item: self.on_datagram(t, item)

    def begin_out(self, t, msg, addr, port, params):
        mid = msg.p_msg.header_info_block.MessageID
        self.own_ids.append(mid)
        rel = msg.p_msg.header_info_block.RelatesTo
        st = getattr(t, '_send_thread', None)
        rec = {'n': len(self.outs), 'id': -len(self.own_ids), 't': self.sim.now_us, 'kind': msg_kind(msg),
               'to': [addr, port], 'pset': pset_name(params), 'pvals': pvals(params), 'thread': self.sim.cur.name,
               'relates': None if rel is None else self.canon(rel.text if hasattr(rel, 'text') else str(rel)),
               'stopping': t._quit_send_event.is_set(), 'queue_empty': t._send_queue.empty(),
               'sender_wake': st.wake if isinstance(st, SimThread) and st.state == 'parked' and st.wake < INF else None,
               'nt': len(self.nts) - 1, 'draws': [], 'entries': []}
        self.outs.append(rec)
        self.events.append(['out', rec['id']])
        self.rnd.current = rec['draws']
        return rec, list(t._send_queue.queue)

    def end_out(self, t, rec, before):
        self.rnd.current = None
        new = [e for e in t._send_queue.queue if not any(e is b for b in before)]
        new.sort(key=lambda e: (e.send_time, e.repeat))
        rec['entries'] = [[round((e.send_time - T0) * 1e6) - rec['t'], e.repeat] for e in new]

    def on_datagram(self, t, item):
        try:
            addr, data = item
            m = MID_RE.search(data)
            mid = m.group(1).decode() if m else None
        except Exception:  # noqa: BLE001
            mid = None
        self._last_in = None
        if mid is None:
            return
        ev = ['in', self.canon(mid), False, mid in self.own_ids]
        self.events.append(ev)
        self._last_in = (mid, ev)

    def on_handled(self, received_message, addr_from):
        mid = received_message.p_msg.header_info_block.MessageID
        if self._last_in is not None and self._last_in[0] == mid:
            self._last_in[1][2] = True
        last_op = next((e[1] for e in reversed(self.events) if e[0] == 'op'), None)
        self.handled.append({'t': self.sim.now_us, 'id': self.canon(mid), 'own': mid in self.own_ids,
                             'kind': received_message.action.rsplit('/', 1)[-1], 'from': list(addr_from),
                             'after_op': last_op})


PEERS = [('10.0.0.9', 4001), ('10.0.0.9', 4002), ('10.0.0.17', 51234)]


def run_scenario(sc):
    """sc: {'seed': int, 'cap': int|None, 'ops': [[delay_ms, name, args...], ...]}"""
    logging.disable(logging.CRITICAL)
    node = Node(sc['seed'], sc.get('cap'))
    steps = []
    err = None
    with node:
        sim = node.sim
        wsd = wsdimpl.WSDiscovery(MY_IP)
        orig = wsd.handle_received_message

        def recording(received_message, addr_from):
            node.on_handled(received_message, addr_from)
            orig(received_message, addr_from)

        wsd.handle_received_message = recording
        cb_log = []
        wsd.set_remote_service_hello_callback(lambda addr, svc: cb_log.append(['hello', svc.epr]))
        wsd.set_remote_service_bye_callback(lambda addr, epr: cb_log.append(['bye', epr]))
        wsd.set_on_probe_callback(lambda addr, probe: cb_log.append(['probe', list(addr)]))
        try:
            wsd.start()
            for op in sc['ops']:
                delay, name, args = op[0], op[1], op[2:]
                sim.sleep(delay / 1000.0)
                note = None
                in_flight = pending_own(node)
                node.events.append(['op', name])
                t_op = sim.now_us
                try:
                    if name == 'pub':
                        i, types, scopes, with_xaddrs = args
                        wsd.publish_service(local_epr(i), [qn(x) for x in types], mk_scopes(scopes),
                                            [f'http://{MY_IP}:5{i:03d}/svc'] if with_xaddrs else [])
                    elif name == 'clear':
                        wsd.clear_service(local_epr(args[0]))
                    elif name == 'clear_local':
                        wsd.clear_local_services()
                    elif name == 'clear_remote':
                        wsd.clear_remote_services()
                    elif name == 'search':
                        types, timeout, interval = args
                        found = wsd.search_services(None if types is None else [qn(x) for x in types], None,
                                                    timeout=timeout, repeat_probe_interval=interval)
                        note = {'found': sorted(s.epr for s in found)}
                    elif name == 'search_multi':
                        tl, timeout, interval = args
                        found = wsd.search_multiple_types([[qn(x) for x in tt] for tt in tl], None,
                                                          timeout=timeout, repeat_probe_interval=interval)
                        note = {'found': sorted(s.epr for s in found)}
                    elif name == 'found':
                        note = {'found': sorted(s.epr for s in wsd.get_found_remote_services())}
                    elif name == 'restart':
                        wsd.stop()
                        sim.sleep(args[0] / 1000.0)
                        wsd.start()
                    elif name == 'in':
                        mid, peer, m = args
                        t = wsd._networking_thread
                        data = mk_incoming(mid, m)
                        message_reader.read_received_message(data, validate=True)   # the generator made it: must be valid
                        uni = m['kind'] in ('probematches', 'resolvematches')
                        port = t.multi_out_uni_in_out.getsockname()[1] if uni else wsd.multicast_port
                        node.net.deliver(data, PEERS[peer], not uni, port)
                    else:
                        raise SystemExit(f'unknown op {name}')
                except SimAbort:
                    raise
                except Exception as e:  # noqa: BLE001
                    note = 'raise:' + type(e).__name__
                steps.append({'op': name, 't': t_op, 'note': note, 'own_in_flight': in_flight,
                              'remote': sorted(wsd._remote_services)})
            sim.sleep(sc.get('tail_ms', 2700) / 1000.0)
            node.events.append(['op', 'stop'])
            remote_at_end = sorted(wsd._remote_services)
            steps.append({'op': 'stop', 't': sim.now_us, 'note': None, 'own_in_flight': pending_own(node),
                          'remote': remote_at_end})
            wsd.stop()
        except SimAbort:
            err = 'simulation given up: ' + str(sim.dead)
        except Exception as e:  # noqa: BLE001
            err = f'{type(e).__name__}: {e}'
        known = [node.canon(x) for x in node.nts[-1]._known_message_ids] if node.nts else []
        maxlen = getattr(node.nts[-1]._known_message_ids, 'maxlen', None) if node.nts else None
        left = sum(t._send_queue.qsize() for t in node.nts)
    tx = []
    for x in node.net.tx:
        m = MID_RE.search(x['data'])
        tx.append({'t': x['t'], 'id': node.canon(m.group(1).decode()) if m else None, 'dest': x['dest'],
                   'len': len(x['data']), 'h': hash(x['data']) & 0xffffffff})
    return {'outs': node.outs, 'tx': tx, 'events': node.events, 'handled': node.handled, 'steps': steps,
            'known': known, 'maxlen': maxlen, 'left': left, 'error': err or (node.sim.errors[0] if node.sim.errors else None),
            'notes': node.notes, 'unexpected_draws': node.rnd.unexpected, 'callbacks': len(cb_log),
            'local_eprs': [local_epr(i) for i in range(4)], 'sim_steps': node.sim.steps,
            'multicast': [MULTICAST_IPV4_ADDRESS, wsdimpl.MULTICAST_PORT], 'peers': [list(p) for p in PEERS],
            'raster_us': [round(nt.SEND_LOOP_IDLE_SLEEP * 1e6), round(nt.SEND_LOOP_BUSY_SLEEP * 1e6)]}


def pending_own(node):
    """number of own messages that still have transmissions on a send queue"""
    ids = set()
    for t in node.nts:
        for e in list(t._send_queue.queue):
            try:
                ids.add(e.msg.created_message.p_msg.header_info_block.MessageID)
            except AttributeError:
                pass
    return len(ids)


# ----------------------------------------------------------------------------------------------- light tracer (translator)
def trace_kind_table():
    """Drive the real WSDiscovery (no networking at all: the networking thread is a recorder) through every API call
    and every incoming message kind that makes it send; returns {kind: set of (pset, destination class)}."""
    logging.disable(logging.CRITICAL)
    calls = []

    class Recorder(REAL_NT):
        """a NetworkingThread without networking: built without __init__, only the attributes that do not need a socket"""

        def add_outbound_message(self, msg, addr, port, repeat_params):
            calls.append((msg_kind(msg), pset_name(repeat_params), pvals(repeat_params), addr, port))

        def schedule_stop(self):
            pass

        def join(self):
            pass

    def recorder():
        t = object.__new__(Recorder)
        t._logger = logging.getLogger('c15.trace')
        t._quit_recv_event = _threading.Event()
        t._quit_send_event = _threading.Event()
        t._send_queue = _queue.PriorityQueue(10000)
        t._read_queue = _queue.Queue(10000)
        t._known_message_ids = collections.deque(maxlen=200)
        return t

    saved = wsdimpl.random
    wsdimpl.random = InstanceIdRandom()
    try:
        wsd = wsdimpl.WSDiscovery(MY_IP)
        wsd._networking_thread = recorder()
        wsd._server_started = True
        requester = ('10.0.0.9', 4001)

        def incoming(mid, m):
            wsd.handle_received_message(message_reader.read_received_message(mk_incoming(mid, m), validate=True), requester)

        wsd.publish_service(local_epr(0), [qn('Dev')], mk_scopes(['http://s.example/a']), [f'http://{MY_IP}:5000/svc'])
        wsd.publish_service(local_epr(1), [qn('Dev'), qn('Other')], mk_scopes(['http://s.example/a']), [])
        wsd._send_probe([qn('Dev')], None)
        incoming(1, {'kind': 'probe', 'types': ['Dev']})
        incoming(2, {'kind': 'probe', 'types': None})
        incoming(3, {'kind': 'resolve', 'epr': local_epr(0)})
        incoming(4, {'kind': 'resolve', 'epr': local_epr(1)})
        incoming(5, {'kind': 'hello', 'svc': {'epr': peer_epr(0), 'types': ['Dev'], 'scopes': ['http://s.example/a']}})
        incoming(6, {'kind': 'probematches', 'matches': [{'epr': peer_epr(1), 'types': ['Dev'], 'scopes': ['http://s.example/a']}]})
        incoming(7, {'kind': 'probematches', 'matches': [{'epr': peer_epr(2), 'types': None, 'scopes': ['http://s.example/a'],
                                                          'xaddrs': ['http://10.0.0.9:1/x']}]})
        incoming(8, {'kind': 'probematches', 'matches': [{'epr': peer_epr(3), 'types': ['Dev'], 'scopes': None,
                                                          'xaddrs': ['http://10.0.0.9:1/x']}]})
        wsd.clear_service(local_epr(0))
        wsd.clear_local_services()
        wsd.publish_service(local_epr(2), [qn('Dev')], mk_scopes(['http://s.example/a']), [f'http://{MY_IP}:5002/svc'])
        wsd.stop()
    finally:
        wsdimpl.random = saved
    table = {}
    for kind, ps, pv, addr, port in calls:
        if (addr, port) == (MULTICAST_IPV4_ADDRESS, wsd.multicast_port):
            dest = 'group'
        elif (addr, port) == requester:
            dest = 'requester'
        else:
            dest = 'other'
        table.setdefault(kind, set()).add((ps, None if ps != 'other' else tuple(pv or ()), dest))
    return table, len(calls)
