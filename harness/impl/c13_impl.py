"""Implementation side of C13: request handling is total.

Sections of the request (all optional):
  flow_post     stub reader/factory/dispatcher around the real MessageConverterMiddleware.do_post
  flow_get      likewise do_get
  flow_handler  the real DispatchingRequestHandler on an in-memory socket with a stub component
  world         a real provider (tests.mockstuff.SomeDevice, role providers of the tutorial) and a real
                consumer, wired without sockets: every request travels as raw HTTP bytes through
                DispatchingRequestHandler -> HTTPReader -> MessageConverterMiddleware -> services.
                Valid requests of every type are produced by the consumer API, captured, mutated
                (seeded) and delivered; each delivery is traced (status, body class, observed stage
                outcomes, state snapshots before/after, read calls, entity resolution attempts).
No sockets, no sleeps (the SCO worker is run inline after each request).
"""
import gzip as _gzip
import http.client
import io
import json
import logging
import os
import random
import re
import sys
import threading
import types
import uuid
from urllib.parse import urlparse

logging.disable(logging.CRITICAL)

import sdc11073.definitions_sdc  # noqa: E402,F401  registers the protocol
from lxml import etree  # noqa: E402
from sdc11073 import observableproperties  # noqa: E402
from sdc11073.dispatch import PathElementRegistry, RequestDispatcher  # noqa: E402
from sdc11073.dispatch.messageconverter import MessageConverterMiddleware  # noqa: E402
from sdc11073.exceptions import (FunctionNotImplementedError, HTTPRequestHandlingError, InvalidActionError,  # noqa: E402
                                 InvalidPathError, ValidationError)
from sdc11073.httpserver.httpreader import mk_chunks  # noqa: E402
from sdc11073.httpserver.httprequesthandler import DispatchingRequestHandler  # noqa: E402
from sdc11073.loghelper import LoggerAdapter  # noqa: E402
from sdc11073.pysoap.soapenvelope import Fault, faultcodeEnum  # noqa: E402

req = json.load(sys.stdin)
out = {}
REPO = os.environ.get('VERIF_REPO', '/repo')


class Spin(BaseException):
    pass


class Captured(BaseException):
    """raised by the loop-back client in capture mode: carries the serialized request"""

    def __init__(self, netloc, path, data):
        super().__init__()
        self.netloc, self.path, self.data = netloc, path, data


# ====================================================================== stubs for flow_post / flow_get
class Msg:
    def __init__(self, data, fail=False):
        self.data, self.fail = data, fail

    def serialize(self, *a, **k):
        if self.fail:
            raise RuntimeError('serialize failed')
        return self.data


def mk_fault():
    f = Fault()
    f.Code.Value = faultcodeEnum.SENDER
    f.add_reason_text('stub')
    return f


HTTP_ERRORS = {400: lambda: InvalidActionError(mk_fault()), 404: lambda: InvalidPathError('nope', mk_fault()),
               500: lambda: FunctionNotImplementedError(mk_fault()), 401: lambda: ValidationError('document invalid', mk_fault()),
               418: lambda: HTTPRequestHandlingError(418, 'teapot', mk_fault())}


def raise_stage(code, val, exc=RuntimeError):
    if code == 1:
        e = HTTP_ERRORS[val]()
        raise e
    if code == 2:
        raise exc('stage raises')


class StubReader:
    def __init__(self, c):
        self.c = c

    def read_received_message(self, data, validate=True):
        if validate:
            raise_stage(self.c['parse'][0], self.c['parse'][1], ValueError)
            return types.SimpleNamespace(action='urn:a', q_name=None)
        if self.c['recover'] == 'reread':
            raise RuntimeError('re-read failed')
        return types.SimpleNamespace(action='urn:a', q_name=None)


class StubFactory:
    def __init__(self, c):
        self.c = c

    def mk_soap_message(self, inf, payload=None, **k):
        return Msg(b'<FAULT/>', fail=not self.c['fault_reply'])

    def mk_reply_soap_message(self, request_data, payload, **k):
        if self.c['recover'] == 'mk_reply':
            raise RuntimeError('mk_reply failed')
        return Msg(b'<FAULT/>', fail=self.c['recover'] == 'serialize')


class StubDispatcher:
    def __init__(self, c):
        self.c = c

    def on_post(self, request_data):
        d = self.c['dispatch']
        if d[0] == 0:
            return Msg(b'<RESPONSE/>')
        if d[0] == 3:      # the handler returns, serializing its response raises
            return Msg(b'<RESPONSE/>', fail=True)
        raise_stage(d[0], d[1])

    def on_get(self, request_data):
        d = self.c['dispatch']
        if d[0] == 0:
            return b'<G/>'
        raise_stage(d[0], d[1], KeyError)


def classify_mw(result):
    status, _reason, body = result[0], result[1], result[2]
    kind = {b'<RESPONSE/>': 0, b'<FAULT/>': 1, b'<G/>': 0}.get(body, 2)
    return ['answer', status, kind]


def run_flow_post(c):
    mw = MessageConverterMiddleware(StubReader(c), StubFactory(c), LoggerAdapter(logging.getLogger('c13')), StubDispatcher(c))
    try:
        return classify_mw(mw.do_post({'Host': 'h'}, '/dev/svc', ('1.1.1.1', 1), b'<x/>'))
    except BaseException as exc:  # noqa: BLE001
        return ['propagates', type(exc).__name__]


def run_flow_get(c):
    mw = MessageConverterMiddleware(StubReader(c), StubFactory(c), LoggerAdapter(logging.getLogger('c13')), StubDispatcher(c))
    try:
        return classify_mw(mw.do_get({'Host': 'h'}, c['path'], ('1.1.1.1', 1)))
    except BaseException as exc:  # noqa: BLE001
        return ['propagates', type(exc).__name__]


# ====================================================================== in-memory socket + handler
class CountingRaw(io.RawIOBase):
    def __init__(self, data, budget=None):
        self.data, self.pos, self.reads = data, 0, 0
        self.budget = budget if budget is not None else 3 * len(data) + 64

    def readable(self):
        return True

    def readinto(self, b):
        self.reads += 1
        if self.reads > self.budget:
            raise Spin
        n = min(len(b), len(self.data) - self.pos)
        b[:n] = self.data[self.pos:self.pos + n]
        self.pos += n
        return n


class ServerSock:
    def __init__(self, data):
        self.raw = CountingRaw(data)
        self.out = bytearray()

    def makefile(self, mode, *a, **k):
        return io.BufferedReader(self.raw)

    def sendall(self, b):
        self.out += b

    def getpeername(self):
        return ('127.0.0.1', 40000)

    def settimeout(self, t):
        pass

    def setsockopt(self, *a):
        pass


READ_LOG = []
_real_read_request = DispatchingRequestHandler._read_request


def _traced_read_request(self):
    try:
        r = _real_read_request(self)
        READ_LOG.append(True)
        return r
    except Spin:
        raise
    except BaseException:
        READ_LOG.append(False)
        raise


DispatchingRequestHandler._read_request = _traced_read_request
ENTERED = []
ON_ENTER = []      # callbacks run when do_POST / do_GET is entered (state snapshot per request on a kept-alive connection)
for _m in ('do_POST', 'do_GET'):
    def _wrap(real, name):
        def method(self):
            ENTERED.append(name)
            for cb in ON_ENTER:
                cb(name)
            return real(self)
        return method
    setattr(DispatchingRequestHandler, _m, _wrap(getattr(DispatchingRequestHandler, _m), _m))
DispatchingRequestHandler.log_message = lambda self, *a, **k: None   # http.server writes request errors to stderr


def serve(raw_request, srv):
    """returns (response bytes, escaped exception|None, spin, read calls, read_ok list)"""
    s = ServerSock(raw_request)
    del READ_LOG[:]
    del ENTERED[:]
    escaped, spin = None, False
    try:
        DispatchingRequestHandler(s, ('127.0.0.1', 40000), srv)
    except Spin:
        spin = True
    except BaseException as exc:  # noqa: BLE001
        escaped = f'{type(exc).__name__}: {exc}'[:200]
    return bytes(s.out), escaped, spin, s.raw.reads, list(READ_LOG)


class BytesSock:
    def __init__(self, data):
        self.data = data

    def makefile(self, mode, *a, **k):
        return io.BufferedReader(io.BytesIO(self.data))


def parse_response(raw, method='POST'):
    """first response in raw: (status, headers dict, body bytes) or None"""
    if not raw.startswith(b'HTTP/'):
        return None
    try:
        r = http.client.HTTPResponse(BytesSock(raw), method=method)
        r.begin()
        while r.status == 100:          # interim response of Expect: 100-continue
            rest = raw[raw.index(b'\r\n\r\n') + 4:]
            return parse_response(rest, method)
        body = r.read()
        return r.status, {k.lower(): v for k, v in r.getheaders()}, body
    except Exception:  # noqa: BLE001
        return None


class SharedSock:
    def __init__(self, data):
        self.fp = io.BufferedReader(io.BytesIO(data), buffer_size=max(8192, len(data) + 16))   # peek() must see the whole rest

    def makefile(self, mode, *a, **k):
        outer = self

        class NoClose:
            def __getattr__(self, n):
                return getattr(outer.fp, n)

            def close(self):
                pass

            def flush(self):
                pass
        return NoClose()


def parse_responses(raw, limit=40):
    """every response written on one connection, in order: [(status, headers, body)], number of bytes that are no response"""
    sock = SharedSock(raw)
    res = []
    while len(res) < limit and sock.fp.peek(1):
        if not sock.fp.peek(5).startswith(b'HTTP/'):
            break
        r = http.client.HTTPResponse(sock, method='POST')
        try:
            r.begin()
            if r.status == 100:
                continue
            res.append((r.status, {k.lower(): v for k, v in r.getheaders()}, r.read()))
        except Exception:  # noqa: BLE001
            res.append((None, {}, b''))
            break
    return res, len(sock.fp.read())


class Comp:
    def __init__(self, c):
        self.c = c

    def _act(self, is_get):
        kind, status, k = self.c['component']
        if kind == 0:
            raise RuntimeError(self.c['reason'])
        body = {0: b'<RESPONSE/>', 1: b'<FAULT/>', 2: b'text'}[k]
        if is_get:
            return status, 'Reason', body, 'text/xml'
        return status, 'Reason', body

    def do_post(self, headers, path, peer, data):
        return self._act(False)

    def do_get(self, headers, path, peer):
        return self._act(True)


READ_VARIANTS = {
    'ok': b'Content-Length: 3\r\n\r\nabc',
    'ok_chunked': b'Transfer-Encoding: chunked\r\n\r\n3\r\nabc\r\n0\r\n\r\n',
    'bad_chunk': b'Transfer-Encoding: chunked\r\n\r\nzz\r\nabc\r\n0\r\n\r\n',
    'eof_in_chunk': b'Transfer-Encoding: chunked\r\n\r\n5\r\nabc',
    'trunc_header': b'Transfer-Encoding: chunked\r\n\r\n5',
    'negative_chunk': b'Transfer-Encoding: chunked\r\n\r\n-3\r\nabc\r\n0\r\n\r\n',
    'unsupported_coding': b'Content-Encoding: br\r\nContent-Length: 3\r\n\r\nabc',
    'corrupt_gzip': b'Content-Encoding: gzip\r\nContent-Length: 3\r\n\r\nabc',
    'bad_cl': b'Content-Length: abc\r\n\r\nabc',
    'neg_cl': b'Content-Length: -1\r\n\r\nabc',
}


def classify_handler(raw, escaped, spin, method):
    if spin:
        return ['spin']
    if escaped:
        return ['propagates', escaped]
    p = parse_response(raw, method)
    if p is None:
        return ['no_response', raw[:60].decode('latin-1')]
    status, hdrs, body = p
    if hdrs.get('content-type', '').startswith('text/plain'):
        kind = 3 if body == b'' else 2
    else:
        kind = {b'<RESPONSE/>': 0, b'<FAULT/>': 1, b'text': 2}.get(body, 9)
    return ['answer', status, kind]


def run_flow_handler(c):
    srv = types.SimpleNamespace(dispatcher=PathElementRegistry() if c['dispatcher'] else None,
                                logger=LoggerAdapter(logging.getLogger('c13.srv')), chunk_size=c.get('chunk', 0),
                                supported_encodings=['gzip'])
    if srv.dispatcher is not None:
        srv.dispatcher.register_instance('dev', Comp(c))
    path = c['path'].encode('latin-1')
    if c['method'] == 'POST':
        raw = b'POST ' + path + b' HTTP/1.1\r\nHost: h\r\n' + READ_VARIANTS[c['read']]
    else:
        raw = b'GET ' + path + b' HTTP/1.1\r\nHost: h\r\n\r\n'
    resp, escaped, spin, reads, read_log = serve(raw, srv)
    return {'result': classify_handler(resp, escaped, spin, c['method']), 'reads': reads, 'read_ok': read_log}


for key, fn in (('flow_post', run_flow_post), ('flow_get', run_flow_get), ('flow_handler', run_flow_handler)):
    if key in req:
        out[key] = [fn(c) for c in req[key]]


# ====================================================================== the world
def build_world(cfg):  # noqa: PLR0915, C901
    from decimal import Decimal

    from sdc11073.consumer.consumerimpl import SdcConsumer, default_components_factory
    from sdc11073.definitions_sdc import SdcV1Definitions
    from sdc11073.provider import sco as sco_module
    from sdc11073.provider.providerimpl import provider_components_sync_factory
    from sdc11073.pysoap import msgreader as msgreader_module
    from sdc11073.pysoap.soapclient import HTTPReturnCodeError
    from sdc11073.xml_types import pm_qnames as pm
    from sdc11073.xml_types import pm_types
    from tests.mockstuff import MockWsDiscovery, SomeDevice

    W = types.SimpleNamespace(traces=[], capture=False, servers={}, depth=0, label='setup', mutation=None,
                              resolved=[], parser_kwargs=[], rng=random.Random(cfg['seed']))

    # ------------------------------------------------------------ entity / DTD resolution attempts
    class CanaryResolver(etree.Resolver):
        def resolve(self, url, pubid, context):
            W.resolved.append(str(url))
            return None

    class EtreeProxy:
        def __getattr__(self, name):
            return getattr(etree, name)

        @staticmethod
        def ETCompatXMLParser(*a, **k):  # noqa: N802
            W.parser_kwargs.append(dict(k))
            p = etree.ETCompatXMLParser(*a, **k)
            p.resolvers.add(CanaryResolver())
            return p

    msgreader_module.etree = EtreeProxy()

    # ------------------------------------------------------------ servers
    class FakeHttpServer:
        def __init__(self, ip, port, role):
            self.dispatcher = PathElementRegistry()
            self.server_port = port
            self.base_url = f'http://{ip}:{port}/'
            self.started_evt = threading.Event()
            self.started_evt.set()
            self.logger = LoggerAdapter(logging.getLogger('c13.http'))
            self.chunk_size = 0
            self.supported_encodings = ['gzip']
            self.role = role
            W.servers[f'{ip}:{port}'] = self

        def stop(self):
            pass

    # ------------------------------------------------------------ instrumentation of the middlewares
    class ResponseProxy:
        def __init__(self, resp, frame):
            self._r, self._f = resp, frame

        def serialize(self, *a, **k):
            try:
                return self._r.serialize(*a, **k)
            except HTTPRequestHandlingError as ex:
                self._f['dispatch'] = [1, ex.status]
                raise
            except Exception:
                self._f['dispatch'] = [2, 0]
                raise

        def __getattr__(self, n):
            return getattr(self._r, n)

    class DispatcherProxy:
        def __init__(self, inner, frames):
            self._i, self._frames = inner, frames

        def on_post(self, request_data):
            f = self._frames[-1] if self._frames else {}
            try:
                r = self._i.on_post(request_data)
            except HTTPRequestHandlingError as ex:
                f['dispatch'] = [1, ex.status]
                raise
            except Exception as ex:
                f['dispatch'] = [2, 0]
                f['dispatch_exc'] = f'{type(ex).__name__}: {ex}'[:160]
                raise
            f['dispatch'] = [0, 0]
            return ResponseProxy(r, f)

        def __getattr__(self, n):
            return getattr(self._i, n)

    class ReaderProxy:
        def __init__(self, inner, frames):
            self._i, self._frames = inner, frames

        def read_received_message(self, data, validate=True):
            f = self._frames[-1] if self._frames else None
            first = f is not None and validate and 'parse' not in f
            try:
                r = self._i.read_received_message(data, validate=validate) if not validate else self._i.read_received_message(data)
            except HTTPRequestHandlingError as ex:
                if first:
                    f['parse'] = [1, ex.status]
                raise
            except Exception as ex:
                if first:
                    f['parse'] = [2, 0]
                    f['parse_exc'] = type(ex).__name__
                raise
            if first:
                f['parse'] = [0, 0]
            if f is not None and W.current_marker:
                hits = scan_marker(getattr(r.p_msg, '_doc_root', None), W.current_marker)
                hib = getattr(r.p_msg, 'header_info_block', None)
                for name in ('MessageID', 'Action', 'To', 'RelatesTo'):
                    v = getattr(hib, name, None)
                    if isinstance(v, str) and W.current_marker in v:
                        hits.append(f'header_info_block.{name}')
                if hits:
                    f.setdefault('entity_handed', []).extend(hits[:4])
            return r

        def __getattr__(self, n):
            return getattr(self._i, n)

    def instrument(mw):
        frames = []
        mw._c13_frames = frames
        mw._msg_reader = ReaderProxy(mw._msg_reader, frames)
        mw._dispatcher = DispatcherProxy(mw._dispatcher, frames)
        real_post, real_get = mw.do_post, mw.do_get

        def do_post(headers, path, peer_name, request_bytes):
            f = {}
            frames.append(f)
            try:
                res = real_post(headers, path, peer_name, request_bytes)
                f['returned'] = True
                f['result'] = [res[0], 1 if b':Fault' in (res[2] or b'')[:4000] and b'Body><' in (res[2] or b'')[:4000].replace(b' ', b'') or
                               re.search(rb'<[A-Za-z0-9]+:Body[^>]*>\s*<[A-Za-z0-9]+:Fault', res[2] or b'') else 0]
                return res
            except BaseException as ex:
                f['returned'] = False
                f['propagated'] = type(ex).__name__
                raise
            finally:
                frames.pop()
                W.last_frames.append(f)

        def do_get(headers, path, peer_name):
            f = {'get': True}
            try:
                res = real_get(headers, path, peer_name)
                f['returned'] = True
                f['get_status'] = res[0]
                return res
            except BaseException as ex:
                f['returned'] = False
                f['propagated'] = type(ex).__name__
                raise
            finally:
                W.last_frames.append(f)
        mw.do_post, mw.do_get = do_post, do_get

    W.last_frames = []
    W.notifications = []
    W.current_marker = None

    # ------------------------------------------------------------ delivery of one request as raw bytes
    def build_raw(method, path, headers, body, framing):
        coding, chunk, wire_mut = framing.get('coding'), framing.get('chunk'), framing.get('wire')
        hdrs = list(headers)
        payload = body
        if payload is not None and coding:
            if coding == 'gzip':
                payload = _gzip.compress(payload)
            hdrs.append(('Content-Encoding', framing.get('coding_header', coding)))
        if framing.get('payload_override') is not None:
            payload = framing['payload_override']
        raw = f'{method} {path} {framing.get("version", "HTTP/1.1")}\r\n'.encode('latin-1')
        if payload is not None:
            if chunk:
                hdrs.append(('Transfer-Encoding', 'chunked'))
                payload = mk_chunks(payload, chunk)
                if wire_mut == 'truncate':
                    payload = payload[:W.rng.randrange(0, len(payload))]
                elif wire_mut == 'bad_size':
                    payload = b'zz' + payload
                elif wire_mut == 'negative':
                    payload = b'-' + payload
                elif wire_mut == 'no_last':
                    payload = payload[:-5]
                elif wire_mut == 'huge':
                    payload = b'FFFFFFFFFFFFFF\r\n' + payload
            elif 'cl' in framing:
                if framing['cl'] is not None:
                    hdrs.append(('Content-Length', framing['cl']))
            else:
                hdrs.append(('Content-Length', str(len(payload))))
        for k, v in hdrs:
            raw += f'{k}: {v}\r\n'.encode('latin-1')
        return raw + b'\r\n' + (payload or b'')

    def body_class(status, hdrs, body):
        if body == b'':
            return 'empty', True
        try:
            root = etree.fromstring(body, parser=etree.XMLParser(resolve_entities=False))
        except Exception:  # noqa: BLE001
            return ('text' if hdrs.get('content-type', '').startswith('text') else 'unparseable'), False
        if root.tag != '{http://www.w3.org/2003/05/soap-envelope}Envelope':
            return 'xml-other', True
        b = root.find('{http://www.w3.org/2003/05/soap-envelope}Body')
        if b is None:
            return 'envelope-without-body', False
        if b.find('{http://www.w3.org/2003/05/soap-envelope}Fault') is not None:
            f = b.find('{http://www.w3.org/2003/05/soap-envelope}Fault')
            ok = f.find('{http://www.w3.org/2003/05/soap-envelope}Code') is not None and \
                f.find('{http://www.w3.org/2003/05/soap-envelope}Reason') is not None
            return 'fault', ok
        return 'response', True

    def deliver(netloc, method, path, headers, body, framing=None, label=None, mutation=None):
        framing = framing or {}
        srv = W.servers[netloc]
        raw = build_raw(method, path, headers, body, framing)
        is_provider = srv.role == 'provider'
        top = W.depth == 0
        before = snapshot(deep=W.deep_now) if (is_provider and top) else None
        mark = len(W.last_frames)
        res_mark = len(W.resolved)
        W.depth += 1
        try:
            resp, escaped, spin, reads, read_log = serve(raw, srv)
        finally:
            W.depth -= 1
        if is_provider and top:
            W.depth += 1          # notifications sent while the queued operation runs belong to this request
            try:
                drain_sco()
            finally:
                W.depth -= 1
        after = snapshot(deep=W.deep_now) if (is_provider and top) else None
        frames = [f for f in W.last_frames[mark:]]
        own = None
        for f in reversed(frames):     # the outermost frame of this delivery is appended last
            own = f
            break
        p = parse_response(resp, method)
        try:
            npath = '/' + path.lstrip('/') if path.startswith('//') else path    # http.server collapses leading slashes
            pp = urlparse(npath)
            els = pp.path.split('/')
            if els[0] == '' and len(els) == 1:
                pclass = 2
            else:
                first = els[0] if els[0] else els[1]
                pclass = 0 if first in srv.dispatcher._instances else 1
        except ValueError:
            pclass = 3
        tr = {'path_class': pclass, 'entered': list(ENTERED), 'endpoint': srv.role, 'label': label or W.label, 'mutation': mutation if mutation is not None else W.mutation,
              'method': method, 'path': path[:120], 'req_len': len(raw), 'escaped': escaped, 'spin': spin,
              'reads': reads, 'read_budget': 3 * len(raw) + 64, 'read_ok': read_log, 'frame': own, 'nested': W.depth > 0,
              'resolved': W.resolved[res_mark:], 'canary_in_response': cfg['canary_content'].encode() in resp}
        if W.current_marker:
            tr['entity_marker'] = W.current_marker
            tr['entity_in_response'] = W.current_marker.encode() in resp
            if W.depth > 0:
                tr['entity_in_notification'] = W.current_marker.encode() in raw
        if p is None:
            tr.update(status=None, body_class='no-response', wellformed=False, resp_head=resp[:80].decode('latin-1'))
        else:
            status, hdrs, rbody = p
            if hdrs.get('content-encoding') == 'gzip':
                try:
                    rbody = _gzip.decompress(rbody)
                except Exception:  # noqa: BLE001
                    rbody = b'<<undecodable gzip>>'
            tr['canary_in_response'] = tr['canary_in_response'] or cfg['canary_content'].encode() in rbody
            if W.current_marker and W.current_marker.encode() in rbody:
                tr['entity_in_response'] = True
            bc, ok = body_class(status, hdrs, rbody)
            tr.update(status=status, body_class=bc, wellformed=ok, content_type=hdrs.get('content-type'))
            tr['header_injected'] = 'x-injected' in hdrs
        if before is not None:
            diff = [k for k in before if before[k] != after[k]]
            tr['state_changed'] = diff
            if diff and cfg.get('debug_diff'):
                for k in diff:
                    a, b = set(before[k]), set(after[k])
                    tr.setdefault('diff_detail', {})[k] = [str(x)[:300] for x in list(a - b)[:2] + list(b - a)[:2]]
        suspicious = (tr['escaped'] or tr['spin'] or p is None or tr['resolved'] or tr['canary_in_response'] or
                      tr.get('header_injected') or tr.get('entity_in_response') or tr.get('entity_in_notification') or (own or {}).get('entity_handed') or
                      not tr.get('wellformed', True) or (own is not None and not own.get('returned')) or
                      (tr.get('status') == 500 and tr.get('body_class') == 'empty') or
                      (tr.get('state_changed') and (tr.get('status') is None or tr['status'] >= 400)))
        tr['raw_hex'] = raw.hex()[:40000] if suspicious else raw.hex()[:cfg.get('keep_hex', 0)]
        W.traces.append(tr)
        if srv.role == 'consumer' and body is not None and len(W.notifications) < 60:
            W.notifications.append((netloc, path, body))
        return p

    # ------------------------------------------------------------ several requests on ONE kept-alive connection
    def deliver_seq(netloc, items, label='sequence'):
        """items: [{'kind', 'raw' (bytes of the complete request), 'message_id', 'valid'}]"""
        srv = W.servers[netloc]
        raw = b''.join(it['raw'] for it in items)
        # what the model of the connection loop needs: per request the framing classes, path class, component outcome
        model_items, wires = [], b''
        for it in items:
            head, _, wire = it['raw'].partition(b'\r\n\r\n')
            lines = head.split(b'\r\n')
            method, path = lines[0].split(b' ')[0].decode(), lines[0].split(b' ')[1].decode('latin-1')
            hd = {}
            for ln in lines[1:]:
                k, _, v = ln.partition(b':')
                hd[k.strip().lower().decode()] = v.strip().decode('latin-1')
            if method not in ('POST', 'GET') or it['kind'] == 'bad_header' or it['kind'].startswith('hdr_fuzz'):
                break
            cl = hd.get('content-length')
            clc = [0, 0] if not cl else [1, int(cl)] if cl.isdigit() else [2, 0] if re.fullmatch(r'-\d+', cl) else [3, 0]
            els = urlparse(path).path.split('/')
            first = els[0] if els[0] else (els[1] if len(els) > 1 else '')
            comp = [1, 500, 1] if it['kind'] == 'bad_xml' else [1, 400, 1] if it['kind'].startswith('mismatch') else [1, 200, 0]
            model_items.append([method == 'POST', [hd.get('transfer-encoding', '').lower() == 'chunked'] + clc, hd.get('content-encoding'),
                                [True, 0 if first in srv.dispatcher._instances else 1], comp, True])
            wires += wire
        before = snapshot(deep=True)
        snaps = []
        ON_ENTER.append(lambda name: snaps.append(snapshot()))
        mark = len(W.last_frames)
        res_mark = len(W.resolved)
        W.depth += 1
        try:
            resp, escaped, spin, reads, read_log = serve(raw, srv)
        finally:
            W.depth -= 1
            ON_ENTER.pop()
        entered = list(ENTERED)
        after_serve = snapshot()
        W.depth += 1
        try:
            drain_sco()
        finally:
            W.depth -= 1
        after = snapshot(deep=True)
        responses, unparsed = parse_responses(resp)
        rs = []
        for status, hdrs, body in responses:
            if hdrs.get('content-encoding') == 'gzip':
                try:
                    body = _gzip.decompress(body)
                except Exception:  # noqa: BLE001
                    body = b'<<undecodable gzip>>'
            bc, ok = body_class(status, hdrs, body) if status is not None else ('no-response', False)
            rel = re.search(rb'RelatesTo[^>]*>([^<]+)<', body or b'')
            rs.append({'status': status, 'body_class': bc, 'wellformed': ok, 'relates_to': rel.group(1).decode('latin-1') if rel else None,
                       'connection': hdrs.get('connection')})
        snaps2 = snaps + [after_serve]
        per_req = [[k for k in snaps2[i] if snaps2[i][k] != snaps2[i + 1][k]] for i in range(len(snaps2) - 1)]
        tr = {'seq': True, 'endpoint': srv.role, 'label': label, 'mutation': 'seq:' + '+'.join(it['kind'] for it in items),
              'kinds': [it['kind'] for it in items], 'valid': [bool(it.get('valid')) for it in items],
              'closes': [bool(it.get('closes')) for it in items], 'expect': [it.get('expect') for it in items],
              'message_ids': [it.get('message_id') for it in items], 'inner_ids': [it.get('inner_id') for it in items], 'n_requests': len(items), 'entered': entered,
              'responses': rs, 'unparsed_output': unparsed, 'escaped': escaped, 'spin': spin, 'reads': reads,
              'read_budget': 3 * len(raw) + 64 * (len(items) + 1), 'frames': len(W.last_frames) - mark,
              'propagated': [f.get('propagated') for f in W.last_frames[mark:] if not f.get('returned')],
              'per_request_changed': per_req, 'state_changed': [k for k in before if before[k] != after[k]],
              'resolved': W.resolved[res_mark:], 'canary_in_response': cfg['canary_content'].encode() in resp, 'nested': False,
              'model_items': model_items if len(wires) <= 6000 else None, 'wires_hex': wires.hex() if len(wires) <= 6000 else None}
        for r_, (st_, hd_, bd_) in zip(rs, responses):
            r_['content_type'] = hd_.get('content-type')
        tr['raw_hex'] = raw.hex()[:60000] if cfg.get('keep_seq_raw', True) else ''
        W.seq_traces.append(tr)
        return tr
    W.seq_traces = []

    # ------------------------------------------------------------ loop-back SOAP client
    class LoopClient:
        roundtrip_time = observableproperties.ObservableProperty()

        def __init__(self, netloc, socket_timeout, logger, ssl_context, sdc_definitions, msg_reader,
                     supported_encodings=None, request_encodings=None, chunk_size=0):
            self.netloc, self._msg_reader = netloc, msg_reader
            self.sock_name = ('127.0.0.1', 5555)
            self.sock = None

        def is_closed(self):
            return False

        def connect(self):
            pass

        def close(self):
            pass

        def post_message_to(self, path, message, msg='', request_manipulator=None, validate=True):
            data = message.serialize(request_manipulator=request_manipulator, validate=validate)
            if W.capture and W.depth == 0:
                raise Captured(self.netloc, path, data)
            headers = [('Host', self.netloc), ('Accept-Encoding', 'gzip'), ('Content-Type', 'application/soap+xml; charset=utf-8')]
            p = deliver(self.netloc, 'POST', path, headers, data, W.framing_for_valid())
            if p is None:
                raise http.client.NotConnected
            status, hdrs, body = p
            if hdrs.get('content-encoding') == 'gzip':
                body = _gzip.decompress(body)
            if not body:
                return None
            md = self._msg_reader.read_received_message(body)
            if status >= 300 or md.action == 'http://www.w3.org/2005/08/addressing/fault':
                raise HTTPReturnCodeError(status, 'reason', Fault.from_node(md.p_msg.msg_node))
            return md

        def get_from_url(self, url, msg):
            if not url.startswith('/'):
                url = '/' + url
            p = deliver(self.netloc, 'GET', url, [('Host', self.netloc), ('Accept-Encoding', 'gzip')], None)
            if p is None:
                raise http.client.NotConnected
            body = p[2]
            if p[1].get('content-encoding') == 'gzip':
                body = _gzip.decompress(body)
            return body

    def framing_for_valid():
        k = W.rng.random()
        if k < 0.6:
            return {}
        if k < 0.8:
            return {'chunk': W.rng.choice([1, 7, 512, 4096])}
        if k < 0.9:
            return {'coding': 'gzip'}
        return {'coding': 'gzip', 'chunk': W.rng.choice([3, 512])}
    W.framing_for_valid = framing_for_valid
    W.deep_now = False

    # ------------------------------------------------------------ provider + consumer
    pc = provider_components_sync_factory()
    pc.soap_client_class = LoopClient
    prov = SomeDevice.from_mdib_file(MockWsDiscovery('127.0.0.1'), uuid.UUID(int=0xabc), REPO + '/tests/70041_MDIB_Final.xml',
                                     components=pc, max_subscription_duration=7200)
    psrv = FakeHttpServer('127.0.0.1', 9000, 'provider')

    def snapshot(deep=False):
        return {}
    prov.start_all(start_rtsample_loop=False, shared_http_server=psrv)
    # no background activity: housekeeping of subscription managers, alarm self check, SCO worker threads
    for _attempt in range(5):          # the thread sets the flag to True when it starts: repeat until it is gone
        alive = [m for m in prov._subscriptions_managers.values() if m._housekeeping_thread.is_alive()]
        if not alive:
            break
        for mgr in alive:
            mgr._run_housekeeping_thread = False
        for mgr in alive:
            mgr._housekeeping_thread.join(timeout=2.5)
    stopped = 0
    for product in prov.product_lookup.values():
        for obj in list(vars(product).values()) + [x for v in vars(product).values() if isinstance(v, (list, tuple)) for x in v]:
            ev = getattr(obj, '_stop_worker', None)
            if isinstance(ev, threading.Event):
                ev.set()
                stopped += 1
    pending = []

    class InlineWorker(sco_module._OperationsWorker):
        def enqueue_operation(self, operation, request, operation_request, transaction_id):
            pending.append((self, (transaction_id, operation, request, operation_request)))

        def stop(self):
            pass

    for reg in prov._sco_operations_registries.values():
        reg.stop_worker()
        reg._worker = InlineWorker(reg, reg._set_service, reg._mdib, '')

    def drain_sco():
        while pending:
            worker, item = pending.pop(0)
            worker._operations_queue.put(item)
            worker._operations_queue.put('stop_sco')
            worker.run()

    mdib = prov.mdib

    def snapshot(deep=False):  # noqa: F811
        def ver(o, name):
            return getattr(o, name, None)
        snap = {
            'mdib_version': (mdib.mdib_version, mdib.sequence_id, mdib.instance_id),
            'descriptions': tuple(sorted((o.Handle, ver(o, 'DescriptorVersion'), id(o)) for o in mdib.descriptions.objects)),
            'states': tuple(sorted((o.DescriptorHandle, ver(o, 'StateVersion'), id(o)) for o in mdib.states.objects)),
            'context_states': tuple(sorted((o.Handle, ver(o, 'StateVersion'), str(ver(o, 'ContextAssociation')),
                                            ver(o, 'BindingMdibVersion'), ver(o, 'UnbindingMdibVersion'), id(o))
                                           for o in mdib.context_states.objects)),
            'subscriptions': tuple(sorted((name, s.identifier_uuid.hex, str(s.notify_to_address), s._expire_seconds, s._started,
                                           bool(s._is_closed), s.unsubscribed_at is None, str(getattr(s.filter_type, 'text', None)))
                                          for name, mgr in prov._subscriptions_managers.items() for s in mgr._subscriptions.objects)),
        }
        if deep:
            def ser(o):
                try:
                    return re.sub(rb' DateAndTime="[^"]*"', b'', etree.tostring(o.mk_state_node(pm.State, mdib.nsmapper)))
                except Exception as ex:  # noqa: BLE001
                    return repr(ex)
            snap['deep_states'] = tuple(sorted(ser(o) for o in list(mdib.states.objects) + list(mdib.context_states.objects)))
        return snap

    W.label = 'setup'
    cc = default_components_factory()
    cc.soap_client_class = LoopClient
    cc.action_dispatcher_class = RequestDispatcher
    instrument(prov._msg_converter)
    cons = SdcConsumer(prov.get_xaddrs()[0], sdc_definitions=SdcV1Definitions, ssl_context_container=None, components=cc)
    csrv = FakeHttpServer('127.0.0.1', 9001, 'consumer')
    cons.start_all(shared_http_server=csrv)
    W.subs = list(cons.subscription_mgr.subscriptions.values())
    for _attempt in range(4):              # no renew thread activity (stop() would also clear the subscription list)
        cons.subscription_mgr._run = False
        cons.subscription_mgr.join(timeout=2.5)
        if not cons.subscription_mgr.is_alive():
            break
    for inst in csrv.dispatcher._instances.values():
        if isinstance(inst, MessageConverterMiddleware):
            instrument(inst)
    W.prov, W.cons, W.psrv, W.csrv = prov, cons, psrv, csrv
    W.deliver, W.snapshot, W.drain = deliver, snapshot, drain_sco
    W.deliver_seq, W.build_raw = deliver_seq, build_raw
    W.Decimal = Decimal
    W.pm = pm
    W.pm_types = pm_types
    W.stopped_threads = stopped
    return W


# ====================================================================== request types and mutations
def request_makers(W):
    cons, prov, rng, Decimal, pm = W.cons, W.prov, W.rng, W.Decimal, W.pm
    get, ctxc, setc = cons.client('Get'), cons.client('Context'), cons.client('Set')
    ctree = cons.client('ContainmentTree')
    subs = W.subs
    mdib = prov.mdib

    def handles(q):
        return [d.Handle for d in mdib.descriptions.NODETYPE.get(q, [])]
    num_ops, str_ops = handles(pm.SetValueOperationDescriptor), handles(pm.SetStringOperationDescriptor)
    act_ops, ctx_ops = handles(pm.ActivateOperationDescriptor), handles(pm.SetContextStateOperationDescriptor)
    pat = handles(pm.PatientContextDescriptor)
    some_handles = [d.Handle for d in list(mdib.descriptions.objects)[:40]]

    def set_context():
        descr = mdib.descriptions.handle.get_one(pat[0])
        cls = mdib.data_model.get_state_container_class(descr.STATE_QNAME)
        proposed = cls(descriptor_container=descr)
        proposed.Handle = pat[0]      # same handle as the descriptor: a new context state
        proposed.ContextAssociation = rng.choice(list(W.pm_types.ContextAssociation)[:3])
        proposed.CoreData.Givenname = rng.choice(['Karl', 'Eva'])
        proposed.CoreData.Familyname = 'K' + str(rng.randint(0, 99))
        return ctxc.set_context_state(ctx_ops[0], [proposed])

    hosted = list(cons.hosted_services.values()) if hasattr(cons, 'hosted_services') else []
    makers = {
        'GetMdib': lambda: get.get_mdib(),
        'GetMdState': lambda: get.get_md_state(rng.sample(some_handles, rng.randint(0, 3)) or None),
        'GetMdDescription': lambda: get.get_md_description(rng.sample(some_handles, rng.randint(0, 3)) or None),
        'GetContextStates': lambda: ctxc.get_context_states(),
        'GetContainmentTree': lambda: ctree.get_containment_tree(rng.sample(some_handles, 2)),
        'GetDescriptor': lambda: ctree.get_descriptor(rng.sample(some_handles, 2)),
        'Subscribe': lambda: rng.choice(subs).subscribe(rng.choice([60, 3600])),
        'Renew': lambda: rng.choice(subs).renew(rng.choice([30, 60, 600])),
        'GetStatus': lambda: rng.choice(subs).get_status(),
        'Unsubscribe': lambda: rng.choice(subs).unsubscribe(),
        'SetValue': lambda: setc.set_numeric_value(rng.choice(num_ops), Decimal(rng.randint(1, 500)) / 10),
        'SetString': lambda: setc.set_string(rng.choice(str_ops), rng.choice(['169.254.0.199', 'abc', 'x' * 40, 'UTC+1'])),
        'Activate': lambda: setc.activate(rng.choice(act_ops), arguments=None),
        'SetContextState': set_context,
        'Probe': lambda: cons.send_probe(),
        'TransferGet': lambda: cons._get_metadata(),
    }
    if hosted:
        soap = next(iter(cons._soap_clients.values()))
        makers['GetMetadata'] = lambda: rng.choice(hosted).read_metadata(soap)
    weights = {'Unsubscribe': 0.25, 'Subscribe': 0.7}
    return makers, weights


NASTY = ['', '-1', '0', '99999999999999999999999999999', '-99999999999999999999', '1e999', 'NaN', 'INF', 'true', 'x' * 3000,
         '\u20ac\u00e4', 'urn:uuid:00000000-0000-0000-0000-000000000000', 'PT-1S', 'P1Y', 'PT0S', '2000-13-45T99:99:99',
         ' ', '../../etc/passwd', 'http://127.0.0.1:9/canary', '0x10', '1.5', '+5', "'\"<>&"]
S12 = 'http://www.w3.org/2003/05/soap-envelope'
WSA = 'http://www.w3.org/2005/08/addressing'


def xml_mutate(rng, data, op, known_actions):
    """structure-aware mutation on the parsed document; returns bytes or None when not applicable"""
    try:
        root = etree.fromstring(data, parser=etree.XMLParser(resolve_entities=False))
    except Exception:  # noqa: BLE001
        return None
    elems = [e for e in root.iter() if isinstance(e.tag, str)]
    inner = [e for e in elems if e is not root]
    if not inner:
        return None
    e = rng.choice(inner)
    if op == 'delete_element':
        e.getparent().remove(e)
    elif op == 'duplicate_element':
        import copy
        e.addnext(copy.deepcopy(e))
    elif op == 'rename_element':
        q = etree.QName(e.tag)
        e.tag = rng.choice([f'{{{q.namespace}}}{q.localname}X', f'{{urn:other}}{q.localname}', 'nons', f'{{{q.namespace}}}Envelope'])
    elif op == 'delete_attribute':
        withattr = [x for x in elems if x.attrib]
        if not withattr:
            return None
        x = rng.choice(withattr)
        del x.attrib[rng.choice(list(x.attrib))]
    elif op == 'rename_attribute':
        withattr = [x for x in elems if x.attrib]
        if not withattr:
            return None
        x = rng.choice(withattr)
        k = rng.choice(list(x.attrib))
        v = x.attrib.pop(k)
        x.set(rng.choice([str(k) + 'X', '{urn:other}a', 'Handle', 'xml_' + etree.QName(k).localname]), v)
    elif op == 'attribute_value':
        withattr = [x for x in elems if x.attrib]
        x = rng.choice(withattr) if withattr else e
        k = rng.choice(list(x.attrib)) if x.attrib else 'MdibVersion'
        x.set(k, rng.choice(NASTY))
    elif op == 'add_attribute':
        e.set(rng.choice(['MdibVersion', 'SequenceId', 'InstanceId', 'Handle', '{urn:x}y', 'OperationHandleRef']), rng.choice(NASTY))
    elif op == 'text_value':
        leaves = [x for x in inner if len(x) == 0]
        x = rng.choice(leaves) if leaves else e
        x.text = rng.choice(NASTY)
    elif op == 'insert_child':
        child = etree.SubElement(e, rng.choice(['{urn:unknown}Thing', etree.QName(e.tag).text, f'{{{S12}}}Body']))
        child.text = rng.choice(NASTY)
    elif op == 'swap_siblings':
        p = e.getparent()
        if len(p) < 2:
            return None
        first = p[0]
        p.remove(first)
        p.append(first)
    elif op == 'wrong_action':
        a = root.find(f'{{{S12}}}Header/{{{WSA}}}Action')
        if a is None:
            return None
        a.text = rng.choice(known_actions + ['urn:garbage', '', 'http://schemas.xmlsoap.org/ws/2004/08/eventing/Subscribe'])
    elif op in ('action_nonlatin', 'echo_field_nonlatin'):
        # request-controlled text that implementations like to echo (status line, fault text, RelatesTo): characters outside
        # latin-1 and line breaks must neither break the response nor inject headers
        tag = 'Action' if op == 'action_nonlatin' else rng.choice(['MessageID', 'To', 'Action'])
        x = root.find(f'{{{S12}}}Header/{{{WSA}}}{tag}')
        if x is None:
            return None
        base = rng.choice(['urn:unknown-action', x.text or 'urn:x'])
        x.text = base + rng.choice(['-\u20ac', '-\u0416\u4e2d', '\nX-Injected: yes', '\r\nX-Injected: yes\r\n', '-\u20ac\nX-Injected: yes'])
    elif op in ('delete_header', 'delete_body'):
        x = root.find(f'{{{S12}}}' + ('Header' if op == 'delete_header' else 'Body'))
        if x is None:
            return None
        root.remove(x)
    elif op in ('delete_action', 'delete_message_id', 'delete_to'):
        tag = {'delete_action': 'Action', 'delete_message_id': 'MessageID', 'delete_to': 'To'}[op]
        x = root.find(f'{{{S12}}}Header/{{{WSA}}}{tag}')
        if x is None:
            return None
        x.getparent().remove(x)
    elif op == 'empty_header':
        h = root.find(f'{{{S12}}}Header')
        if h is None or len(h) == 0:
            return None
        for ch in list(h):
            h.remove(ch)
    elif op == 'delete_header_block':
        h = root.find(f'{{{S12}}}Header')
        if h is None or len(h) == 0:
            return None
        h.remove(rng.choice(list(h)))
    elif op == 'empty_body':
        b = root.find(f'{{{S12}}}Body')
        if b is None:
            return None
        for ch in list(b):
            b.remove(ch)
    elif op == 'deep_nesting':
        cur = e
        for _ in range(rng.choice([300, 2000])):
            cur = etree.SubElement(cur, '{urn:deep}d')
    elif op == 'many_siblings':
        for _ in range(rng.choice([2000, 20000])):
            etree.SubElement(e, '{urn:wide}w')
    else:
        raise ValueError(op)
    try:
        return etree.tostring(root, xml_declaration=True, encoding='UTF-8')
    except Exception:  # noqa: BLE001
        return None


XML_OPS = ['delete_element', 'duplicate_element', 'rename_element', 'delete_attribute', 'rename_attribute', 'attribute_value',
           'add_attribute', 'text_value', 'insert_child', 'swap_siblings', 'wrong_action', 'delete_header_block', 'empty_body',
           'deep_nesting', 'many_siblings', 'delete_header', 'delete_body', 'delete_action', 'delete_message_id', 'delete_to',
           'empty_header', 'action_nonlatin', 'action_nonlatin', 'echo_field_nonlatin']
BYTE_OPS = ['truncate', 'flip_bytes', 'non_utf8', 'empty', 'garbage', 'bom', 'encoding_decl', 'doctype_file', 'doctype_http',
            'doctype_param', 'billion_laughs', 'dtd_external', 'comment_pi', 'null_bytes', 'xinclude']
PATH_OPS = ['other_service', 'unknown_service', 'unknown_device', 'empty_path', 'root_path', 'deeper', 'double_slash', 'bad_url',
            'no_slash', 'query', 'long_path']
FRAME_OPS = ['chunk_truncate', 'chunk_bad_size', 'chunk_negative', 'chunk_no_last', 'chunk_huge', 'cl_longer', 'cl_shorter',
             'cl_negative', 'cl_garbage', 'cl_absent', 'ce_unsupported', 'ce_corrupt', 'ce_plain_as_gzip', 'ce_upper',
             'no_host', 'weird_accept', 'method_get', 'method_put', 'http10', 'expect_continue', 'valid_gzip_chunked']


def scan_marker(root, marker):
    """places of a parsed tree (text, tail, attribute values) that contain the marker: what a handler would read"""
    hits = []
    if root is None or not marker:
        return hits
    try:
        top = root.getroottree().getroot()
    except Exception:  # noqa: BLE001
        top = root
    for el in top.iter():
        tag = el.tag if isinstance(el.tag, str) else type(el).__name__
        for kind, val in (('text', el.text), ('tail', el.tail)):
            if isinstance(val, str) and marker in val:
                hits.append(f'{kind} of {tag}')
        if isinstance(el.tag, str):
            for k, v in el.attrib.items():
                if marker in v:
                    hits.append(f'attribute {k} of {tag}')
        if len(hits) > 5:
            break
    return hits


ENTITY_OPS = ['entity_content', 'entity_echo', 'entity_attr', 'entity_param', 'entity_nested', 'entity_attr_nested']


def entity_mutate(rng, data, op, marker):
    """declare an internal entity whose replacement text is the marker and reference it where its expansion would be
    handed to a handler or echoed in the answer"""
    decl_end = data.find(b'?>') + 2 if data.startswith(b'<?xml') else 0
    head, rest = data[:decl_end], data[decl_end:]
    m = marker.encode()
    if op in ('entity_nested', 'entity_attr_nested'):
        dtd = (b'<!DOCTYPE foo [<!ENTITY a "' + m + b'"><!ENTITY b "&a;-&a;-&a;"><!ENTITY e "&b;+&b;+&b;">]>')
    elif op == 'entity_param':
        dtd = b'<!DOCTYPE foo [<!ENTITY % pe "<!ENTITY e \'' + m + b'\'>"> %pe;]>'
    else:
        dtd = b'<!DOCTYPE foo [<!ENTITY e "' + m + b'">]>'
    if op in ('entity_attr', 'entity_attr_nested'):
        attrs = [a for a in re.finditer(rb' ([A-Za-z0-9_]+:)?([A-Za-z0-9_]+)="([^"<&]*)"', rest) if not a.group(0).startswith(b' xmlns')]
        if attrs and rng.random() < 0.7:
            a = rng.choice(attrs)
            rest = rest[:a.start(3)] + rng.choice([b'&e;', a.group(3) + b'&e;']) + rest[a.end(3):]
        else:       # no attribute there: add one to the payload element (or the Body)
            b = re.search(rb'<[A-Za-z0-9]+:Body[^>]*>\s*<[A-Za-z0-9:]+', rest) or re.search(rb'<[A-Za-z0-9]+:Body', rest)
            if b is None:
                return None
            rest = rest[:b.end()] + b' ExtAttr="&e;"' + rest[b.end():]
    elif op == 'entity_echo':
        tag = rng.choice([b'MessageID', b'Action', b'To', b'Address'])
        t = re.search(rb'<[A-Za-z0-9]+:' + tag + rb'[^>]*>([^<]*)<', rest)
        if t is None:
            return None
        rest = rest[:t.start(1)] + rng.choice([b'&e;', b'urn:uuid:&e;', t.group(1) + b'&e;']) + rest[t.end(1):]
    else:
        rest = inject_ref(rng, rest, b'&e;')
    return head + dtd + rest


def byte_mutate(rng, data, op, cfg):
    canary_file, canary_url = cfg['canary_file'], 'http://127.0.0.1:9/c13canary'
    decl_end = data.find(b'?>') + 2 if data.startswith(b'<?xml') else 0
    head, rest = data[:decl_end], data[decl_end:]
    if op == 'truncate':
        return data[:rng.randrange(0, len(data))]
    if op == 'flip_bytes':
        b = bytearray(data)
        for _ in range(rng.randint(1, 4)):
            b[rng.randrange(len(b))] ^= 1 << rng.randrange(8)
        return bytes(b)
    if op == 'non_utf8':
        p = rng.randrange(len(data))
        return data[:p] + rng.choice([b'\xff\xfe', b'\xc3', b'\xed\xa0\x80', b'\xf8\x88\x80\x80\x80']) + data[p:]
    if op == 'empty':
        return b''
    if op == 'garbage':
        return bytes(rng.randrange(256) for _ in range(rng.randint(1, 200)))
    if op == 'bom':
        return rng.choice([b'\xef\xbb\xbf', b'\xff\xfe', b'\xfe\xff']) + data
    if op == 'encoding_decl':
        enc = rng.choice([b'utf-16', b'latin-1', b'ascii', b'nonsense', b'utf-32'])
        return b"<?xml version='1.0' encoding='" + enc + b"'?>" + rest
    if op == 'doctype_file':
        return head + b'<!DOCTYPE foo [<!ENTITY xxe SYSTEM "file://' + canary_file.encode() + b'">]>' + inject_ref(rng, rest, b'&xxe;')
    if op == 'doctype_http':
        return head + b'<!DOCTYPE foo [<!ENTITY xxe SYSTEM "' + canary_url.encode() + b'">]>' + inject_ref(rng, rest, b'&xxe;')
    if op == 'doctype_param':
        return head + b'<!DOCTYPE foo [<!ENTITY % p SYSTEM "file://' + canary_file.encode() + b'"> %p;]>' + rest
    if op == 'entity_in_text':
        return head + b'<!DOCTYPE foo [<!ENTITY e "INTERNALENTITYVALUE">]>' + inject_ref(rng, rest, b'&e;')
    if op == 'billion_laughs':
        lv = b''.join(b'<!ENTITY l%d "%s">' % (i, b''.join(b'&l%d;' % (i - 1) for _ in range(10))) for i in range(1, 7))
        return head + b'<!DOCTYPE lolz [<!ENTITY l0 "lol">' + lv + b']>' + inject_ref(rng, rest, b'&l6;')
    if op == 'dtd_external':
        return head + b'<!DOCTYPE foo SYSTEM "file://' + canary_file.encode() + b'">' + rest
    if op == 'comment_pi':
        p = rest.find(b'>') + 1
        return head + rest[:p] + rng.choice([b'<!-- c -->', b'<?pi data?>', b'<![CDATA[x]]>']) + rest[p:]
    if op == 'null_bytes':
        p = rng.randrange(len(data))
        return data[:p] + b'\x00' + data[p:]
    if op == 'xinclude':
        p = rest.find(b'>') + 1
        return head + rest[:p] + b'<xi:include xmlns:xi="http://www.w3.org/2001/XInclude" parse="text" href="file://' + \
            canary_file.encode() + b'"/>' + rest[p:]
    raise ValueError(op)


def inject_ref(rng, rest, ref):
    """put an entity reference into the text of some element (or directly behind a start tag)"""
    spots = [m.start() + 1 for m in re.finditer(rb'>[^<>]{1,200}</', rest)]
    if not spots or rng.random() < 0.3:
        spots = [m.end() for m in re.finditer(rb'<[A-Za-z0-9:]+[^<>/]*>', rest)] or [len(rest)]
    p = rng.choice(spots)
    return rest[:p] + ref + rest[p:]


HDR_VALUES = {
    'Content-Length': ['abc', '1e3', '3, 3', '+', '-', '-1', '-0', '0', '', ' ', '0x10', '1.5', '99999999999999999999', '1_0', '3;q=1',
                       '\u00b2', '5 5', 'None'],
    'Transfer-Encoding': ['chunked, chunked', 'gzip, chunked', 'chunked;q=1', 'identity', 'gzip', '', 'Chunked ', 'chunkedx', ',', 'abc'],
    'Content-Encoding': ['', 'gzip, gzip', 'GZIP', 'identity', 'br', ',', 'gzip;q=1', 'x-lz4', 'lz4', 'none', 'deflate'],
    'Accept-Encoding': ['', ',', ';;', 'gzip;q=abc', 'gzip;q=', 'gzip;q=1e999', 'gzip;q=-1', '*', 'x' * 5000, 'gzip,' * 500, 'gzip;q=nan',
                        '\u00e9\u00e8', 'identity;q=0, *;q=0'],
    'Host': ['', ' ', 'a b', 'x' * 3000, '[::1', 'h:abc', 'h:99999999', '-', '\u00e9'],
    'Connection': ['close', 'keep-alive', 'upgrade', '', 'close, keep-alive', 'Keep-Alive, Upgrade', 'abc', 'TE'],
    'Expect': ['100-continue', '100-Continue', '101-foo', '', 'abc', '100-continue, 100-continue'],
}
HDR_METHODS = ['POST', 'POST', 'GET', 'GET', 'GET', 'HEAD', 'PUT', 'DELETE', 'OPTIONS', 'BREW']


def header_fuzz(rng, headers, field=None):
    """replace / add one header field with a value of the nasty list; returns (headers, field, value)"""
    field = field or rng.choice(list(HDR_VALUES))
    value = rng.choice(HDR_VALUES[field])
    hs = [h for h in headers if h[0].lower() != field.lower()]
    hs.insert(rng.randrange(len(hs) + 1), (field, value))
    return hs, field, value


def mismatch_message(x_data, y_data):
    """SOAP header (action, addressing, identifiers) of request X with the body element of request Y; None if not applicable"""
    import copy
    try:
        px = etree.XMLParser(resolve_entities=False)
        x, y = etree.fromstring(x_data, parser=px), etree.fromstring(y_data, parser=etree.XMLParser(resolve_entities=False))
    except Exception:  # noqa: BLE001
        return None
    bx, by = x.find(f'{{{S12}}}Body'), y.find(f'{{{S12}}}Body')
    if bx is None or by is None or len(by) == 0:
        return None
    if len(bx) and bx[0].tag == by[0].tag:
        return None
    for ch in list(bx):
        bx.remove(ch)
    for ch in by:
        bx.append(copy.deepcopy(ch))
    return etree.tostring(x, xml_declaration=True, encoding='UTF-8')


def direct_reads(W, body, marker):
    """the same bytes handed to MessageReader.read_received_message of the provider and of the consumer (the reader of
    requests, notifications, responses and WS-Discovery datagrams), with and without schema validation"""
    res = []
    for who, reader in (('provider', W.prov.msg_reader), ('consumer', W.cons.msg_reader)):
        for validate in (True, False):
            try:
                r = reader.read_received_message(body, validate=validate)
                hits = scan_marker(getattr(r.p_msg, '_doc_root', None), marker)
                hib = r.p_msg.header_info_block
                hits += [f'header_info_block.{n}' for n in ('MessageID', 'Action', 'To') if isinstance(getattr(hib, n, None), str)
                         and marker in getattr(hib, n)]
                res.append({'reader': who, 'validate': validate, 'outcome': 'returned', 'handed': hits[:4]})
            except Exception as exc:  # noqa: BLE001
                res.append({'reader': who, 'validate': validate, 'outcome': 'raised ' + type(exc).__name__, 'handed': []})
    return res


def run_wsd(W, rng, n):
    """WS-Discovery datagrams (Hello / Bye / Probe) with entity declarations through NetworkingThread._run_q_read"""
    if not n:
        return []
    import collections
    import queue

    from sdc11073.wsdiscovery import networkingthread as nt
    from sdc11073.wsdiscovery import wsdimpl
    from sdc11073.xml_types import wsd_types
    from sdc11073.xml_types.addressing_types import HeaderInformationBlock

    class StubWsd:
        def __init__(self):
            self.got = []

        def handle_received_message(self, received_message, addr):
            self.got.append(received_message)

    class OneShot:
        def __init__(self, t, items):
            self.t, self.items = t, collections.deque(items)

        def get(self, timeout=None):
            if not self.items:
                self.t._quit_recv_event.set()
                raise queue.Empty
            return self.items.popleft()

    def mk(kind, k):
        if kind == 'bye':
            pl = wsd_types.ByeType()
            pl.EndpointReference.Address = f'urn:uuid:00000000-0000-0000-0000-{k:012d}'
        elif kind == 'hello':
            pl = wsd_types.HelloType()
            pl.EndpointReference.Address = f'urn:uuid:00000000-0000-0000-0000-{k:012d}'
            pl.XAddrs = [f'http://127.0.0.1:{9000 + k}/x']
        else:
            pl = wsd_types.ProbeType()
        inf = HeaderInformationBlock(action=pl.action, addr_to=wsdimpl.ADDRESS_ALL, message_id=f'urn:uuid:10000000-0000-0000-0000-{k:012d}')
        return wsdimpl._mk_wsd_soap_message(inf, pl).serialize()

    out_traces = []
    for k in range(n):
        kind = rng.choice(['bye', 'hello', 'probe'])
        try:
            data = mk(kind, k)
        except Exception as exc:  # noqa: BLE001
            out_traces.append({'kind': kind, 'error': f'{type(exc).__name__}: {exc}'[:160]})
            continue
        marker = f'ENT{rng.getrandbits(48):012x}Z'
        op = rng.choice(ENTITY_OPS + ['none'])
        body = data if op == 'none' else entity_mutate(rng, data, op, marker)
        if body is None:
            op, body = 'none', data
        t = object.__new__(nt.NetworkingThread)
        t._quit_recv_event = threading.Event()
        t._logger = logging.getLogger('c13.wsd')
        t._known_message_ids = collections.deque(maxlen=50)
        t._wsd = StubWsd()
        t._read_queue = OneShot(t, [(('10.0.0.9', 3702), body)])
        mark = len(W.resolved)
        tr = {'kind': kind, 'op': op, 'marker': marker, 'escaped': None}
        try:
            t._run_q_read()
        except BaseException as exc:  # noqa: BLE001
            tr['escaped'] = f'{type(exc).__name__}: {exc}'[:160]
        tr['handled'] = len(t._wsd.got)
        hits = []
        for m in t._wsd.got:
            hits += scan_marker(getattr(m.p_msg, '_doc_root', None), marker)
            hib = m.p_msg.header_info_block
            hits += [f'header_info_block.{x}' for x in ('MessageID', 'Action', 'To') if isinstance(getattr(hib, x, None), str)
                     and marker in getattr(hib, x)]
        hits += [f'known_message_ids: {x[:60]}' for x in t._known_message_ids if isinstance(x, str) and marker in x]
        tr['handed'] = hits[:4]
        tr['resolved'] = W.resolved[mark:]
        tr['datagram_hex'] = body.hex()[:6000] if hits or tr['escaped'] or tr['resolved'] else ''
        out_traces.append(tr)
    return out_traces


def run_world(cfg):  # noqa: PLR0915, C901, PLR0912
    open(cfg['canary_file'], 'w').write(cfg['canary_content'])
    W = build_world(cfg)
    rng = W.rng
    makers, weights = request_makers(W)
    names = list(makers)
    n_setup = len(W.traces)
    known_actions = []
    provider_netloc = '127.0.0.1:9000'
    dev = '/' + W.prov.path_prefix
    services = ['Get', 'StateEvent', 'Set', 'ContainmentTree']
    default_headers = [('Host', provider_netloc), ('Accept-Encoding', 'gzip'), ('Content-Type', 'application/soap+xml; charset=utf-8')]
    errors = []
    for i in range(cfg['n']):
        name = rng.choices(names, [weights.get(n, 1.0) for n in names])[0]
        W.deep_now = (i % 7 == 0)
        if rng.random() < cfg.get('valid_share', 0.25):
            W.capture, W.label, W.mutation = False, name, 'none'
            try:
                makers[name]()
            except Captured:
                pass
            except Exception as exc:  # noqa: BLE001   faults are legitimate answers to valid requests too
                errors.append(f'{name}: {type(exc).__name__}')
            continue
        W.capture = True
        try:
            makers[name]()
            W.capture = False
            continue                 # nothing was sent (e.g. local short cut)
        except Captured as cap:
            netloc, path, data = cap.netloc, cap.path, cap.data
        except Exception as exc:  # noqa: BLE001
            errors.append(f'capture {name}: {type(exc).__name__}: {exc}'[:120])
            W.capture = False
            continue
        finally:
            W.capture = False
        m = re.search(rb'Action[^>]*>([^<]+)<', data)
        if m and m.group(1).decode() not in known_actions:
            known_actions.append(m.group(1).decode())
        family = rng.choices(['xml', 'bytes', 'path', 'frame', 'entity', 'header', 'mismatch'], [0.33, 0.18, 0.08, 0.14, 0.07, 0.1, 0.1])[0]
        if family == 'mismatch':
            # ORDER: a valid request with action A first (same dispatcher, another connection), then action A with the body element
            # of another operation: there is no handler for (A, foreign body) - must be a fault, nothing may run
            other = rng.choice([n for n in names if n != name])
            W.capture, W.label, W.mutation = False, name, 'none'
            try:
                makers[name]()
            except BaseException:  # noqa: BLE001
                pass
            W.capture = True
            try:
                makers[name]()
                x = None
            except Captured as cap:
                x = cap
            except Exception:  # noqa: BLE001
                x = None
            try:
                makers[other]()
                y = None
            except Captured as cap:
                y = cap
            except Exception:  # noqa: BLE001
                y = None
            finally:
                W.capture = False
            body = mismatch_message(x.data, y.data) if x is not None and y is not None else None
            if body is None:
                continue
            W.label, W.mutation = name, f'mismatch:{name}+{other}'
            try:
                W.deliver(x.netloc, 'POST', x.path, list(default_headers), body, {}, label=name, mutation=f'mismatch:{name}+{other}')
            except Exception as exc:  # noqa: BLE001
                errors.append(f'deliver mismatch {name}+{other}: {type(exc).__name__}: {exc}'[:160])
            continue
        method, headers, framing, body = 'POST', list(default_headers), {}, data
        marker = None
        if family == 'header':
            # one nasty header field value, for every method the handler implements and some it does not
            method = rng.choice(HDR_METHODS)
            headers, field, value = header_fuzz(rng, headers)
            op = f'{method}:{field}'
            if method != 'POST':
                path = rng.choice([dev + '/Get/?wsdl', path, dev])
                body = None if rng.random() < 0.7 else data
            if field == 'Content-Length':
                headers = [h for h in headers if h[0] != 'Content-Length']
                if body is None:
                    headers.append(('Content-Length', value))
                else:
                    framing = {'cl': value}
        elif family == 'entity':
            marker = f'ENT{rng.getrandbits(48):012x}Z'
            for _try in range(4):
                op = rng.choice(ENTITY_OPS)
                body = entity_mutate(rng, data, op, marker)
                if body is not None:
                    break
            else:
                op, body, marker = 'entity-not-applicable', data, None
        elif family == 'xml':
            for _try in range(6):
                op = rng.choice(XML_OPS)
                body = xml_mutate(rng, data, op, known_actions)
                if body is not None and body != data:
                    break
            else:
                op, body = 'xml-not-applicable', data
        elif family == 'bytes':
            op = rng.choice(BYTE_OPS)
            body = byte_mutate(rng, data, op, cfg)
        elif family == 'path':
            op = rng.choice(PATH_OPS)
            cur = path
            path = {'other_service': dev + '/' + rng.choice(services), 'unknown_service': dev + '/Nope',
                    'unknown_device': '/deadbeef' + cur[len(dev):], 'empty_path': '', 'root_path': '/', 'deeper': cur + '/x/y',
                    'double_slash': '/' + cur, 'bad_url': 'http://[' + cur, 'no_slash': 'http://host', 'query': cur + '?wsdl',
                    'long_path': cur + '/' + 'a' * rng.choice([300, 70000])}[op]
            if path == '':
                path = '?'
        else:
            op = rng.choice(FRAME_OPS)
            if op.startswith('chunk_'):
                framing = {'chunk': rng.choice([1, 5, 512]), 'wire': op[6:] if op != 'chunk_bad_size' else 'bad_size'}
                framing['wire'] = {'chunk_truncate': 'truncate', 'chunk_bad_size': 'bad_size', 'chunk_negative': 'negative',
                                   'chunk_no_last': 'no_last', 'chunk_huge': 'huge'}[op]
            elif op == 'cl_longer':
                framing = {'cl': str(len(data) + rng.randint(1, 50))}
            elif op == 'cl_shorter':
                framing = {'cl': str(max(0, len(data) - rng.randint(1, 50)))}
            elif op == 'cl_negative':
                framing = {'cl': rng.choice(['-1', '-5'])}
            elif op == 'cl_garbage':
                framing = {'cl': rng.choice(['abc', '1.5', '0x10', '1e3'])}
            elif op == 'cl_absent':
                framing = {'cl': None}
            elif op == 'ce_unsupported':
                framing = {'coding': 'none', 'coding_header': rng.choice(['br', 'deflate', 'zstd'])}
            elif op == 'ce_corrupt':
                z = bytearray(_gzip.compress(data))
                z[rng.randrange(10, len(z))] ^= 0x10        # behind the 10-byte gzip header (mtime/xfl/os are not checked by anyone)
                framing = {'coding': 'none', 'coding_header': 'gzip', 'payload_override': bytes(z[:rng.choice([len(z), len(z) // 2])])}
            elif op == 'ce_plain_as_gzip':
                framing = {'coding': 'none', 'coding_header': rng.choice(['gzip', 'lz4', 'x-lz4'])}
            elif op == 'ce_upper':
                framing = {'coding': 'gzip', 'coding_header': 'GZIP'}
            elif op == 'no_host':
                headers = [h for h in headers if h[0] != 'Host']
            elif op == 'weird_accept':
                headers = [h for h in headers if h[0] != 'Accept-Encoding'] + \
                    [('Accept-Encoding', rng.choice(['gzip;q=0', '*;q=0', 'br', 'gzip;q=abc', ';;;,,,', 'x' * 5000, 'gzip;q=nan']))]
            elif op == 'method_get':
                method, body = 'GET', None
            elif op == 'method_put':
                method = 'PUT'
            elif op == 'http10':
                framing = {'version': 'HTTP/1.0'}
            elif op == 'expect_continue':
                headers.append(('Expect', '100-continue'))
            elif op == 'valid_gzip_chunked':
                framing = {'coding': 'gzip', 'chunk': 64}
        W.label, W.mutation = name, f'{family}:{op}'
        W.current_marker = marker
        try:
            W.deliver(netloc, method, path, headers, body, framing, label=name, mutation=f'{family}:{op}')
            if marker:
                W.traces[-1]['direct_reads'] = direct_reads(W, body, marker)
        except Exception as exc:  # noqa: BLE001   the harness itself
            errors.append(f'deliver {name} {family}:{op}: {type(exc).__name__}: {exc}'[:160])
        finally:
            W.current_marker = None

    # consumer endpoint: notifications the provider has sent, replayed mutated
    # (totality only; the consumer keeps no MDIB in this world)
    W.deep_now = False
    for _ in range(cfg.get('n_consumer', 0) if W.notifications else 0):
        netloc, path, data = rng.choice(W.notifications)
        family = rng.choices(['xml', 'bytes', 'path', 'frame', 'none', 'entity'], [0.35, 0.25, 0.1, 0.1, 0.05, 0.15])[0]
        headers = [('Host', netloc), ('Accept-Encoding', 'gzip'), ('Content-Type', 'application/soap+xml; charset=utf-8')]
        framing, body, op = {}, data, 'none'
        marker = None
        if family == 'entity':
            marker = f'ENT{rng.getrandbits(48):012x}Z'
            op = rng.choice(ENTITY_OPS)
            body = entity_mutate(rng, data, op, marker)
            if body is None:
                op, body, marker = 'entity-not-applicable', data, None
        elif family == 'xml':
            op = rng.choice(XML_OPS)
            body = xml_mutate(rng, data, op, known_actions) or data
        elif family == 'bytes':
            op = rng.choice(BYTE_OPS)
            body = byte_mutate(rng, data, op, cfg)
        elif family == 'path':
            op = rng.choice(['unknown', 'deeper', 'root', 'bad_url'])
            path = {'unknown': '/nope' + path, 'deeper': path + '/x', 'root': '/', 'bad_url': 'http://[' + path}[op]
        elif family == 'frame':
            op = rng.choice(['chunk_truncate', 'chunk_negative', 'ce_unsupported', 'cl_garbage', 'valid_chunked'])
            framing = {'chunk_truncate': {'chunk': 7, 'wire': 'truncate'}, 'chunk_negative': {'chunk': 7, 'wire': 'negative'},
                       'ce_unsupported': {'coding': 'none', 'coding_header': 'br'}, 'cl_garbage': {'cl': 'abc'},
                       'valid_chunked': {'chunk': 100}}[op]
        W.current_marker = marker
        try:
            W.deliver(netloc, 'POST', path, headers, body, framing, label='notification', mutation=f'{family}:{op}')
            if marker:
                W.traces[-1]['direct_reads'] = direct_reads(W, body, marker)
        except Exception as exc:  # noqa: BLE001
            errors.append(f'deliver notification {family}:{op}: {type(exc).__name__}: {exc}'[:160])
        finally:
            W.current_marker = None
    wsd_traces = run_wsd(W, rng, cfg.get('n_wsd', 0))

    # ------------------------------------------------------------ keep-alive: several requests on one connection
    def capture(name):
        W.capture = True
        try:
            makers[name]()
        except Captured as cap:
            return cap.netloc, cap.path, cap.data
        except Exception:  # noqa: BLE001
            return None
        finally:
            W.capture = False
        return None

    seq_valid_types = ['GetMdib', 'GetMdState', 'GetContextStates', 'Probe', 'TransferGet', 'GetMetadata', 'SetString', 'SetValue',
                       'Subscribe', 'GetMdDescription']
    seq_kinds = ['valid', 'valid', 'valid', 'unknown_path', 'unknown_path', 'smuggle_post', 'smuggle_post', 'smuggle_get', 'bad_method',
                 'bad_header', 'bad_xml', 'framing_error', 'unsupported_ce', 'oversized_unknown', 'get', 'get_unknown', 'hdr_fuzz', 'hdr_fuzz', 'mismatch', 'mismatch', 'mismatch']

    def mid(data):
        m = re.search(rb'MessageID[^>]*>([^<]+)<', data)
        return m.group(1).decode('latin-1') if m else None

    def seq_mismatch():
        name = rng.choice(seq_valid_types + ['Renew', 'GetStatus'])
        other = rng.choice([n for n in names if n != name])
        x1, x2, y = capture(name), capture(name), capture(other)
        if x1 is None or x2 is None or y is None:
            return []
        body = mismatch_message(x2[2], y[2])
        if body is None:
            return []
        H = list(default_headers)
        return [{'kind': 'valid', 'raw': W.build_raw('POST', x1[1], H, x1[2], W.framing_for_valid()), 'message_id': mid(x1[2]), 'valid': True,
                 'expect': 200 if name in seq_valid_types else None},
                {'kind': f'mismatch:{name}+{other}', 'raw': W.build_raw('POST', x2[1], H, body, W.framing_for_valid()), 'expect': 400}]

    def seq_item(kind):
        cap = capture(rng.choice(seq_valid_types if kind != 'smuggle_post' and kind != 'smuggle_get' else ['Subscribe', 'SetString', 'Subscribe']))
        if cap is None:
            return None
        netloc, path, data = cap
        H = list(default_headers)
        vf = W.framing_for_valid()
        unknown = '/deadbeef' + path[len(dev):]
        if kind == 'valid':
            return {'kind': kind, 'raw': W.build_raw('POST', path, H, data, vf), 'message_id': mid(data), 'valid': True, 'expect': 200}
        if kind == 'unknown_path':
            return {'kind': kind, 'raw': W.build_raw('POST', unknown, H, data, vf), 'expect': 404}
        if kind == 'smuggle_post':      # the body of the rejected request is itself a complete request
            inner = W.build_raw('POST', path, H, data, {})
            return {'kind': kind, 'raw': W.build_raw('POST', unknown, H, inner, rng.choice([{}, {}, {'chunk': 4096}])), 'expect': 404,
                    'inner_id': mid(data)}
        if kind == 'smuggle_get':
            inner = W.build_raw('POST', path, H, data, {})
            return {'kind': kind, 'raw': W.build_raw('GET', rng.choice([dev + '/Get/?wsdl', '/deadbeef/x']), H, inner, {}),
                    'closes': 'may', 'expect': None, 'inner_id': mid(data)}
        if kind == 'bad_method':
            return {'kind': kind, 'raw': W.build_raw(rng.choice(['PUT', 'DELETE', 'PATCH']), path, H, data, {}), 'closes': True, 'expect': 501}
        if kind == 'bad_header':
            extra = [('X-Long', 'a' * 70000)] if rng.random() < 0.5 else [(f'X-{i}', '1') for i in range(150)]
            return {'kind': kind, 'raw': W.build_raw('POST', path, H + extra, data, {}), 'closes': True, 'expect': 431}
        if kind == 'bad_xml':
            return {'kind': kind, 'raw': W.build_raw('POST', path, H, byte_mutate(rng, data, 'truncate', cfg), vf), 'expect': 500}
        if kind == 'framing_error':
            return {'kind': kind, 'raw': W.build_raw('POST', path, H, data, {'chunk': 64, 'wire': rng.choice(['bad_size', 'negative'])}),
                    'closes': True, 'expect': 400}
        if kind == 'unsupported_ce':
            return {'kind': kind, 'raw': W.build_raw('POST', path, H, data, {'coding': 'none', 'coding_header': 'br'}), 'closes': True, 'expect': 400}
        if kind == 'oversized_unknown':
            big = data + b'<!--' + b'x' * rng.choice([70000, 300000]) + b'-->'
            return {'kind': kind, 'raw': W.build_raw('POST', unknown, H, big, rng.choice([{}, {'chunk': 512}, {'coding': 'gzip'}])), 'expect': 404}
        if kind == 'get':
            return {'kind': kind, 'raw': W.build_raw('GET', dev + '/Get/?wsdl', H, None, {}), 'expect': 200}
        if kind == 'get_unknown':
            return {'kind': kind, 'raw': W.build_raw('GET', '/deadbeef/x', H, None, {}), 'expect': 404}
        if kind == 'hdr_fuzz':
            # a nasty header field value on a request without body (GET / HEAD / ...) or on a POST whose body framing stays
            # consistent (an invalid Content-Length is answered 400 and closes); the connection may be closed, it must be answered
            method = rng.choice(['GET', 'GET', 'GET', 'POST', 'HEAD', 'OPTIONS'])
            hs, field, value = header_fuzz(rng, H)
            if method == 'POST':
                if field == 'Content-Length':
                    value = rng.choice(['abc', '1e3', '3, 3', '+', '-1', '1.5', '0x10'])
                    return {'kind': kind + ':POST:' + field, 'raw': W.build_raw('POST', path, [h for h in hs if h[0] != field], data, {'cl': value}),
                            'closes': 'may', 'expect': 400}
                if field in ('Transfer-Encoding', 'Content-Encoding', 'Expect'):
                    field = 'Accept-Encoding'
                    hs, field, value = header_fuzz(rng, H, field)
                return {'kind': kind + ':POST:' + field, 'raw': W.build_raw('POST', path, hs, data, {}), 'closes': 'may', 'expect': None,
                        'valid': True, 'message_id': mid(data)}     # still a complete request: it may be executed
            if field == 'Content-Length':
                hs = [h for h in hs if h[0] != field] + [(field, value)]
            return {'kind': f'{kind}:{method}:{field}', 'raw': W.build_raw(method, rng.choice([dev + '/Get/?wsdl', '/deadbeef/x']), hs, None, {}),
                    'closes': 'may', 'expect': None}
        raise ValueError(kind)

    for _ in range(cfg.get('n_seq', 0)):
        items = []
        closing = {'bad_method', 'bad_header', 'framing_error', 'unsupported_ce'}
        for _k in range(rng.randint(2, 5)):
            kind = rng.choice(seq_kinds)
            if kind in closing and (not items or rng.random() < 0.6 or any(i['kind'] in closing for i in items)):
                kind = rng.choice(['unknown_path', 'smuggle_post', 'valid', 'bad_xml'])   # the connection ends behind a closing kind
            if kind == 'mismatch':
                items.extend(seq_mismatch())
                continue
            it = seq_item(kind)
            if it is not None:
                items.append(it)
        last = seq_item('valid')            # a rejected request is followed by a valid one
        if last is not None:
            items.append(last)
        if len(items) < 2:
            continue
        try:
            W.deliver_seq(provider_netloc, items)
        except Exception as exc:  # noqa: BLE001
            errors.append(f'deliver_seq: {type(exc).__name__}: {exc}'[:200])
    final_mdib = None
    W.capture, W.label, W.mutation, W.deep_now = False, 'final-GetMdib', 'none', True
    try:
        final_mdib = W.cons.client('Get').get_mdib()
        raw = final_mdib.p_msg.raw_data
        canary_in_mdib = cfg['canary_content'].encode() in raw
    except Exception as exc:  # noqa: BLE001
        canary_in_mdib = None
        errors.append(f'final GetMdib: {type(exc).__name__}: {exc}'[:160])
    try:
        os.unlink(cfg['canary_file'])
    except OSError:
        pass
    return {'traces': W.traces, 'wsd': wsd_traces, 'seq': W.seq_traces, 'n_setup': n_setup, 'errors': errors[:30], 'n_errors': len(errors),
            'canary_in_mdib': canary_in_mdib, 'parser_kwargs': [k for k in {json.dumps(k, sort_keys=True) for k in W.parser_kwargs}],
            'resolved_total': W.resolved[:20], 'stopped_threads': W.stopped_threads,
            'threads': sorted({t.name for t in threading.enumerate()})}


if 'world' in req:
    out['world'] = run_world(req['world'])
print(json.dumps(out, default=str))
