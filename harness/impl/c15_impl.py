"""Implementation side of C15: drive NetworkingThread._repeated_enqueue_msg with enumerated draws."""
import json
import queue
import sys
import threading
import logging

from sdc11073.wsdiscovery import networkingthread as nt

req = json.load(sys.stdin)


class FakeRandom:
    def __init__(self):
        self.d0 = 0
        self.g = 0
        self.calls = []

    def randint(self, a, b):
        self.calls.append(('randint', a, b))
        return self.d0

    def randrange(self, a, b=None):
        self.calls.append(('randrange', a, b))
        return self.g


class FakeTime:
    now = 1000.0

    def time(self):
        return self.now

    def monotonic(self):
        return self.now - 777.0       # another epoch: schedules made with one clock and compared with the other show

    def perf_counter(self):
        return self.now - 555.0

    def sleep(self, _):
        pass


fr, ft = FakeRandom(), FakeTime()
nt.random = fr
nt.time = ft


def mk_thread():
    t = object.__new__(nt.NetworkingThread)
    t._quit_send_event = threading.Event()
    t._send_queue = queue.PriorityQueue(10000)
    t._logger = logging.getLogger('c15')
    return t


def run_grid(name):
    p = getattr(nt, name)
    lines = []
    draws_ok = True
    for d0 in range(0, p.max_initial_delay_ms + 1):
        for g in range(p.min_delay_ms, p.max_delay_ms):
            t = mk_thread()
            fr.d0, fr.g, fr.calls = d0, g, []
            t._repeated_enqueue_msg('MSG', p)
            if fr.calls != [('randint', 0, p.max_initial_delay_ms), ('randrange', p.min_delay_ms, p.max_delay_ms)]:
                draws_ok = False
            ents = []
            while not t._send_queue.empty():
                e = t._send_queue.get()
                ents.append(f'{round((e.send_time - ft.now) * 1e6)}:{e.repeat}')
            lines.append(f'{d0} {g} | ' + ' '.join(ents))
    return {'params': [p.max_initial_delay_ms, p.repeat, p.min_delay_ms, p.max_delay_ms, p.upper_delay_ms],
            'lines': lines, 'draws_ok': draws_ok}


def params_of(name):
    p = getattr(nt, name)
    return [p.max_initial_delay_ms, p.repeat, p.min_delay_ms, p.max_delay_ms, p.upper_delay_ms]


out = {'params': {'U': params_of('UNICAST_REPEAT_PARAMS'), 'M': params_of('MULTICAST_REPEAT_PARAMS')}}
if req.get('grid', True):       # the exhaustive grid costs ~4 s: the other streams switch it off
    out.update({'unicast': run_grid('UNICAST_REPEAT_PARAMS'), 'multicast': run_grid('MULTICAST_REPEAT_PARAMS')})
    # a stopped sender drops the message
    logging.disable(logging.CRITICAL)
    t = mk_thread()
    t._quit_send_event.set()
    t._repeated_enqueue_msg('MSG', nt.MULTICAST_REPEAT_PARAMS)
    out['dropped_when_stopped'] = t._send_queue.empty()
    logging.disable(logging.NOTSET)


# ------------------------------------------------------------------ known-message-id filter
import collections
from sdc11073.wsdiscovery import wsdimpl
from sdc11073.xml_types import wsd_types
from sdc11073.xml_types.addressing_types import HeaderInformationBlock


def mk_msg(mid):
    bye = wsd_types.ByeType()
    bye.EndpointReference.Address = 'urn:uuid:00000000-0000-0000-0000-000000000001'
    inf = HeaderInformationBlock(action=bye.action, addr_to=wsdimpl.ADDRESS_ALL,
                                 message_id=f'urn:uuid:00000000-0000-0000-0000-{mid:012d}')
    return wsdimpl._mk_wsd_soap_message(inf, bye)


class StubWsd:
    def __init__(self):
        self.acted = []

    def handle_received_message(self, received_message, addr):
        self.acted.append(received_message.p_msg.header_info_block.MessageID)


class OneShotQueue:
    """read queue that stops the reader thread function when drained"""

    def __init__(self, thread, items):
        self.t, self.items = thread, collections.deque(items)

    def get(self, timeout=None):
        if not self.items:
            self.t._quit_recv_event.set()
            raise queue.Empty
        return self.items.popleft()


def run_dedup(events):
    t = mk_thread()
    t._quit_recv_event = threading.Event()
    # the deque is created as in NetworkingThread.__init__ (maxlen read by the translator)
    t._known_message_ids = collections.deque(maxlen=req['cap'])
    t._wsd = StubWsd()
    res = []
    for kind, mid in events:
        if kind == 'out':
            t.add_outbound_message(mk_msg(mid), '239.255.255.250', 3702, nt.UNICAST_REPEAT_PARAMS)
            res.append(False)
        else:
            before = len(t._wsd.acted)
            t._quit_recv_event.clear()
            t._read_queue = OneShotQueue(t, [(('10.0.0.9', 3702), mk_msg(mid).serialize())])
            t._run_q_read()
            res.append(len(t._wsd.acted) > before)
    mem = [int(x.rsplit('-', 1)[1]) for x in t._known_message_ids]
    return {'acted': res, 'mem': mem}


out['dedup'] = [run_dedup(evs) for evs in req.get('dedup', [])]


# ------------------------------------------------------------------ the send loop itself (actual transmissions)
class SimTime:
    """virtual clock: sleep() advances it and injects the messages that other threads would enqueue meanwhile"""

    def __init__(self, thread, injections):
        self.now = 1000.0
        self.t = thread
        self.todo = sorted((x for x in injections if not x.get('at_send')), key=lambda x: x['at_ms'])
        # messages that another thread enqueues WHILE the send thread hands a datagram to the socket
        self.at_send = {}
        for x in injections:
            if x.get('at_send'):
                self.at_send.setdefault(x['at_send'], []).append(x)
        self.snap = any(x.get('snap') for x in injections)   # the sleep may overshoot up to the next due time
        self.enqueued = []
        self.steps = 0
        self.in_hand = False      # the loop has taken an entry from the queue and not transmitted it yet
        self.log = []             # model events: ['P', send time, repeat] / ['T', clock, sent]; times as exact integers

    @staticmethod
    def exact(t):
        """a float in [512, 1024) as an integer number of its ulps (2**-43): order and equality are preserved exactly"""
        return int(t * 2 ** 43) if 512.0 <= t < 1024.0 else None

    def time(self):
        return self.now

    def monotonic(self):
        return self.now - 777.0       # another epoch than time()

    def perf_counter(self):
        return self.now - 555.0

    def sleep(self, d):
        self.steps += 1
        # the loop decided NOT to transmit at this clock value; of a run of such polls only the last one is kept
        # (the clock only moves forward, so the last one implies the others)
        if self.log and self.log[-1][0] == 'T' and not self.log[-1][2]:
            self.log.pop()
        self.log.append(['T', self.exact(self.now), False])
        if self.steps > 200000:
            self.t._quit_send_event.set()
            raise RuntimeError('send loop does not finish')
        self.now += max(float(d), 0.0)
        if self.snap and not self.t._send_queue.empty():
            head = self.t._send_queue.queue[0].send_time
            if self.now < head <= self.now + max(float(d), 0.0):
                self.now = head      # a sleep that lasts a little longer: the poll happens exactly at a due time
        self.inject()

    def inject(self):
        while self.todo and 1000.0 + self.todo[0]['at_ms'] / 1000.0 <= self.now + 1e-9:
            self.enqueue(self.todo.pop(0))
        if not self.todo:
            self.t._quit_send_event.set()      # nothing more will come: the loop ends when the queue is drained

    def enqueue(self, x):
        if True:
            fr.d0, fr.g = x['d0'], x['g']
            before = list(self.t._send_queue.queue)
            self.t._repeated_enqueue_msg(x['id'], getattr(nt, x['params']))
            new = [e for e in self.t._send_queue.queue if not any(e is b for b in before)]
            # [message, transmission number, due time, time of the enqueue call, was the queue empty before]
            self.log += [['P', self.exact(e.send_time), e.repeat] for e in new]
            self.enqueued += [[x['id'], e.repeat, round((e.send_time - 1000.0) * 1e6), round((self.now - 1000.0) * 1e6),
                               not before and not self.in_hand] for e in new]


class SimQueue(queue.PriorityQueue):
    """a blocking get() with a timeout waits in VIRTUAL time"""
    sim = None

    def get(self, block=True, timeout=None):
        if self.empty() and block and timeout:
            self.sim.sleep(timeout)
        if self.empty():
            raise queue.Empty
        self.sim.in_hand = True
        return super().get(block=False)


class FakeKey:
    fileobj = 'sock'


class FakeSelector:
    def select(self, timeout=None):
        return [(FakeKey(), 1)]


def run_sendloop(injections):
    t = mk_thread()
    t._send_queue = SimQueue(10000)
    sim = SimTime(t, injections)
    t._send_queue.sim = sim
    sent = []
    sent_x = []
    t._outbound_selector = FakeSelector()

    def record(q_msg, s):
        sim.log.append(['T', sim.exact(sim.now), True])
        sent_x.append([sim.exact(sim.now), sim.exact(q_msg.send_time)])
        sent.append([q_msg.msg, q_msg.repeat, round((sim.now - 1000.0) * 1e6)])
        for x in sim.at_send.pop(len(sent), []):      # another thread calls add_outbound_message during sendto()
            sim.enqueue(x)
        sim.in_hand = False
    t._send_msg = record
    old = nt.time
    nt.time = sim
    err = None
    try:
        sim.inject()
        t._run_send()
    except Exception as e:  # noqa: BLE001
        err = f'{type(e).__name__}: {e}'
    finally:
        nt.time = old
    return {'enqueued': sim.enqueued, 'sent': sent, 'error': err, 'left': t._send_queue.qsize(),
            'raster_us': [round(nt.SEND_LOOP_IDLE_SLEEP * 1e6), round(nt.SEND_LOOP_BUSY_SLEEP * 1e6)],
            'events': sim.log, 'sent_x': sent_x,
            'left_x': sorted(sim.exact(getattr(e, 'send_time', 0.0)) or 0 for e in t._send_queue.queue)}


out['sendloop'] = [run_sendloop(x) for x in req.get('sendloop', [])]

# ------------------------------------------------------------------ the whole node (real WSDiscovery + real NetworkingThread)
if req.get('node'):
    import os
    sys.path.insert(0, os.path.dirname(os.path.abspath(__file__)))
    import c15_sim
    saved = (nt.random, nt.time)
    out['node'] = [c15_sim.run_scenario(sc) for sc in req['node']]
    nt.random, nt.time = saved
print(json.dumps(out))
