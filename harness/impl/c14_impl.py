"""Implementation side of C14: real match_scope / matches_filter and the real WSDiscovery + the real
NetworkingThread._run_q_read / add_outbound_message, without sockets and threads.

stdin : {"pairs": [{"mb": str|None, "a": str, "b": str}],
         "filters": [{"svcs": [{"epr", "types", "scopes": None|{"mb", "text"}}], "types": None|[..], "scopes": None|{"mb", "text"}}],
         "seqs":  [{"cap": int, "events": [ev, ...]}]}      events: see run_seq
stdout: {"pairs": [{"res": 0|1|"raise:<kind>", ...}],
         "filters": [{"in_list": [[0|1|2 per requested scope] per service], "matches": [0|1|2 per service],
                      "kept": [epr]|None, "split": {text: verdict}}],
         "seqs": [trace], "matchby": {...}}"""
import collections
import json
import logging
import queue
import sys
import threading
import urllib.parse

from lxml import etree

from sdc11073.namespaces import default_ns_helper as nsh
from sdc11073.wsdiscovery import networkingthread as nt
from sdc11073.wsdiscovery import wsdimpl
from sdc11073.wsdiscovery.common import message_reader
from sdc11073.xml_types import wsd_types
from sdc11073.xml_types.addressing_types import HeaderInformationBlock

logging.disable(logging.CRITICAL)
req = json.load(sys.stdin)


def exc_kind(e):
    return 'value' if isinstance(e, ValueError) else 'other:' + type(e).__name__


def split_verdict(text):
    try:
        r = urllib.parse.urlsplit(text)
    except ValueError as e:
        return 'ipv6' if str(e) == 'Invalid IPv6 URL' else 'bad'
    # unicode-aware lower() of a non-ASCII authority is outside the byte model
    return 'ok' if r.netloc.isascii() else 'nonascii-netloc'


def utf8_clean(text):
    try:
        urllib.parse.unquote_to_bytes(text).decode('utf-8')
    except UnicodeDecodeError:
        return False
    return True


def run_pair(c):
    try:
        res = int(bool(wsdimpl.match_scope(c['a'], c['b'], c['mb'])))
    except Exception as e:  # noqa: BLE001
        res = 'raise:' + exc_kind(e)
    return {'res': res, 'split': [split_verdict(c['a']), split_verdict(c['b'])],
            'clean': utf8_clean(c['a']) and utf8_clean(c['b'])}


# ----------------------------------------------------------------------------- message construction
def qn(t):
    return etree.QName(t[0], t[1])


def verdict(f):
    try:
        return int(bool(f()))
    except Exception:  # noqa: BLE001
        return 2


def run_filter_case(c):
    """_is_scope_in_list, matches_filter and filter_services on the same services / filter."""
    svcs = [wsdimpl.Service([qn(t) for t in s['types']], mk_scopes(s['scopes']), ['http://10.0.0.1:1/x'], s['epr'], 1,
                            metadata_version=1) for s in c['svcs']]
    types = None if c['types'] is None else [qn(t) for t in c['types']]
    scopes = mk_scopes(c['scopes'])
    in_list = [[] if scopes is None else
               [verdict(lambda u=u, sv=sv: wsdimpl._is_scope_in_list(u, scopes.MatchBy, sv.scopes)) for u in scopes.text]
               for sv in svcs]
    matches = [verdict(lambda sv=sv: wsdimpl.matches_filter(sv, types, scopes)) for sv in svcs]
    try:
        kept = [sv.epr for sv in wsdimpl.filter_services(svcs, types, scopes)]
    except Exception:  # noqa: BLE001
        kept = None
    texts = set(c['scopes']['text'] if c['scopes'] else [])
    for s in c['svcs']:
        texts.update(s['scopes']['text'] if s['scopes'] else [])
    return {'in_list': in_list, 'matches': matches, 'kept': kept, 'split': {t: split_verdict(t) for t in sorted(texts)},
            'matchby_seen': None if scopes is None else scopes.MatchBy}


def mk_scopes(sc):
    if sc is None:
        return None
    s = wsd_types.ScopesType(match_by=sc.get('mb'))
    s.text.extend(sc['text'])
    return s


def fill(payload, svc):
    payload.EndpointReference.Address = svc['epr']
    payload.Types = None if svc['types'] is None else [qn(t) for t in svc['types']]
    payload.Scopes = mk_scopes(svc['scopes'])
    if svc['xaddrs'] is not None:
        payload.XAddrs.extend(svc['xaddrs'])
    payload.MetadataVersion = svc['mdv']


def mid_urn(mid):
    return f'urn:uuid:00000000-0000-0000-0000-{mid:012d}'


def mk_incoming(mid, m):
    kind = m['kind']
    relates = None
    if kind == 'hello':
        payload = wsd_types.HelloType()
        fill(payload, m['svc'])
        to = wsdimpl.ADDRESS_ALL
    elif kind == 'bye':
        payload = wsd_types.ByeType()
        payload.EndpointReference.Address = m['epr']
        # the optional parts of ByeType
        if m.get('types') is not None:
            payload.Types = [qn(t) for t in m['types']]
        if m.get('scopes') is not None:
            payload.Scopes = mk_scopes(m['scopes'])
        if m.get('xaddrs') is not None:
            payload.XAddrs = list(m['xaddrs'])
        payload.MetadataVersion = m.get('mdv')
        to = wsdimpl.ADDRESS_ALL
    elif kind == 'probe':
        payload = wsd_types.ProbeType()
        payload.Types = None if m['types'] is None else [qn(t) for t in m['types']]
        sc = mk_scopes(m['scopes'])
        if sc is not None:
            payload.Scopes = sc
        to = wsdimpl.ADDRESS_ALL
    elif kind == 'probematches':
        payload = wsd_types.ProbeMatchesType()
        for svc in m['matches']:
            pm = wsd_types.ProbeMatchType()
            fill(pm, svc)
            payload.ProbeMatch.append(pm)
        to, relates = wsdimpl.WSA_ANONYMOUS, mid_urn(999999)
    elif kind == 'resolve':
        payload = wsd_types.ResolveType()
        payload.EndpointReference.Address = m['epr']
        to = wsdimpl.ADDRESS_ALL
    elif kind == 'resolvematches':
        payload = wsd_types.ResolveMatchesType()
        if m['match'] is not None:
            payload.ResolveMatch = wsd_types.ResolveMatchType()
            fill(payload.ResolveMatch, m['match'])
        to, relates = wsdimpl.WSA_ANONYMOUS, mid_urn(999999)
    elif kind == 'other':
        payload = wsd_types.ByeType()
        payload.EndpointReference.Address = 'urn:uuid:x'
        to = wsdimpl.ADDRESS_ALL
    else:
        raise SystemExit(f'unknown message kind {kind}')
    action = payload.action if kind != 'other' else nsh.WSD.namespace + '/Unknown'
    inf = HeaderInformationBlock(action=action, addr_to=to, message_id=mid_urn(mid), relates_to=relates)
    cm = wsdimpl._mk_wsd_soap_message(inf, payload)
    if m.get('appseq') is not None:
        aps = wsd_types.AppSequenceType()
        aps.InstanceId = m['appseq']
        aps.MessageNumber = m.get('aps_msgno', 1)
        aps.SequenceId = m.get('aps_seqid')
        cm.p_msg.add_header_element(aps.as_etree_node(nsh.WSD.tag('AppSequence'), ns_map=nsh.partial_map(nsh.WSD)))
    data = cm.serialize()
    for tag in m.get('strip', []):       # "missing optional parts": remove an empty optional element from the datagram
        data = data.replace(f'<wsd:{tag}></wsd:{tag}>'.encode(), b'').replace(f'<wsd:{tag}/>'.encode(), b'')
    return data


def svc_canon(epr, types, scopes, xaddrs, mdv, iid):
    return {'epr': epr, 'types': [[t.namespace, t.localname] for t in (types or [])],
            'types_none': types is None,
            'scopes': None if scopes is None else list(scopes.text), 'xaddrs': list(xaddrs or []), 'mdv': mdv,
            'iid': int(iid)}


def service_canon(s):
    return svc_canon(s.epr, s.types, s.scopes, s.x_addrs, s.metadata_version, s.instance_id)


class OneShotQueue:
    def __init__(self, thread, items):
        self.t, self.items = thread, collections.deque(items)

    def get(self, timeout=None):
        if not self.items:
            self.t._quit_recv_event.set()
            raise queue.Empty
        return self.items.popleft()


class FakeRandom:
    nxt = 1

    def randint(self, a, b):
        return self.nxt


def run_seq(c):
    wsdimpl.allow_missing_app_sequence = bool(c.get('allow', False))     # module option, a valid configuration
    fr = FakeRandom()
    wsdimpl.random = fr
    wsd = wsdimpl.WSDiscovery('127.0.0.1')
    wsd._server_started = True                     # publish_service / clear_service insist on a started server
    t = object.__new__(nt.NetworkingThread)
    t._quit_send_event = threading.Event()
    t._quit_recv_event = threading.Event()
    t._logger = logging.getLogger('c14')
    t._known_message_ids = collections.deque(maxlen=c['cap'])
    t._wsd = wsd
    own_ids = []
    sent_data = []
    outs = []

    def record(msg, params):                        # replaces _repeated_enqueue_msg (C15): no queue, no timing
        cm = msg.created_message
        own_ids.append(cm.p_msg.header_info_block.MessageID)
        data = cm.serialize()
        sent_data.append(data)
        rm = message_reader.read_received_message(data, validate=True)
        hib = rm.p_msg.header_info_block
        kind = rm.action.rsplit('/', 1)[-1]
        aps = rm.p_msg.header_node.find(nsh.WSD.tag('AppSequence'))
        iid = None if aps is None else wsd_types.AppSequenceType.from_node(aps).InstanceId
        o = {'kind': kind, 'to': [msg.addr, msg.port], 'multicast': params is nt.MULTICAST_REPEAT_PARAMS,
             'relates_to': None if hib.RelatesTo is None else hib.RelatesTo.text, 'appseq': iid}
        if kind == 'Hello':
            p = wsd_types.HelloType.from_node(rm.p_msg.msg_node)
            o['svc'] = svc_canon(p.EndpointReference.Address, p.Types, p.Scopes, p.XAddrs, p.MetadataVersion, iid)
        elif kind == 'Bye':
            o['epr'] = wsd_types.ByeType.from_node(rm.p_msg.msg_node).EndpointReference.Address
        elif kind == 'ProbeMatches':
            p = wsd_types.ProbeMatchesType.from_node(rm.p_msg.msg_node)
            o['matches'] = [svc_canon(m.EndpointReference.Address, m.Types, m.Scopes, m.XAddrs, m.MetadataVersion, iid)
                            for m in p.ProbeMatch]
        elif kind == 'ResolveMatches':
            m = wsd_types.ResolveMatchesType.from_node(rm.p_msg.msg_node).ResolveMatch
            o['svc'] = svc_canon(m.EndpointReference.Address, m.Types, m.Scopes, m.XAddrs, m.MetadataVersion, iid)
        elif kind == 'Resolve':
            o['epr'] = wsd_types.ResolveType.from_node(rm.p_msg.msg_node).EndpointReference.Address
        outs.append(o)

    t._repeated_enqueue_msg = record
    wsd._networking_thread = t

    def deliver(data, addr):
        t._quit_recv_event.clear()
        t._read_queue = OneShotQueue(t, [(addr, data)])
        t._run_q_read()

    steps = []
    for ev in c['events']:
        n0 = len(outs)
        note = None
        try:
            if ev[0] == 'pub':
                _, epr, types, scopes, xaddrs, iid = ev
                fr.nxt = iid
                wsd.publish_service(epr, [qn(x) for x in types], mk_scopes(scopes), list(xaddrs))
            elif ev[0] == 'clear':
                wsd.clear_service(ev[1])
            elif ev[0] == 'in':
                try:
                    data = mk_incoming(ev[1], ev[2])
                    message_reader.read_received_message(data, validate=True)
                except Exception as e:  # noqa: BLE001  the generator produced something the schema rejects
                    note = 'invalid-message:' + type(e).__name__
                else:
                    deliver(data, ('10.0.0.9', 4000 + (ev[1] % 7)))
            elif ev[0] == 'loop':
                if ev[1] < len(sent_data):
                    deliver(sent_data[ev[1]], ('127.0.0.1', 3702))
                else:
                    note = 'nothing-sent'
            elif ev[0] == 'found':
                _, types, scopes = ev
                note = {'found': [s.epr for s in wsd.get_found_remote_services(
                    None if types is None else [qn(x) for x in types], mk_scopes(scopes))]}
            else:
                raise SystemExit(f'unknown event {ev[0]}')
        except Exception as e:  # noqa: BLE001
            note = 'raise:' + type(e).__name__
        steps.append({'outs': outs[n0:], 'note': note,
                      'remote_brief': [[s.epr, s.metadata_version] for s in wsd._remote_services.values()],
                      'remote_content': [[s.epr, [[t.namespace, t.localname] for t in (s.types or [])],
                                          [] if s.scopes is None else list(s.scopes.text)] for s in wsd._remote_services.values()]})

    def canon_id(x):
        if x in own_ids:
            return -(own_ids.index(x) + 1)
        return int(x.rsplit('-', 1)[1])

    return {'steps': steps,
            'remote': [service_canon(s) for s in wsd._remote_services.values()],
            'remote_keys': list(wsd._remote_services.keys()),
            'local': [service_canon(s) for s in wsd._local_services.values()],
            'known': [canon_id(x) for x in t._known_message_ids],
            'own_relates': [None if o['relates_to'] is None else canon_id(o['relates_to']) if o['relates_to'].startswith('urn:uuid:00000000') else o['relates_to'] for o in outs]}


out = {'pairs': [run_pair(c) for c in req.get('pairs', [])],
       'filters': [run_filter_case(c) for c in req.get('filters', [])],
       'seqs': [run_seq(c) for c in req.get('seqs', [])],
       'pool_split': {t: split_verdict(t) for t in req.get('scope_pool', [])},
       'matchby': {m.name: m.value for m in wsdimpl.MatchBy}}
print(json.dumps(out))
