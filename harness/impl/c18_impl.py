"""Implementation side of C18: drive the real scalar converters of sdc11073 on generated inputs.

stdin: {"ts_window": [lo, hi], "ts_ns": [...], "ts_floats": [[m, e], ...], "ts_exact": [["int"|"dec", str], ...],
        "ts_lex": [...], "dec_vals": [[neg, digits, exp], ...], "dec_lex": [...], "int_vals": [...], "int_lex": [...],
        "bool_lex": [...], "enum_mut": seed, "dur_vals": [["float"|"int"|"dec", repr], ...], "dur_lex": [...],
        "dt_vals": [...], "dt_lex": [...], "attr": [...]}
stdout (last line): one JSON object with one list per stream.  Floats never leave this process as floats:
they are returned as (mantissa, exponent) with value = mantissa * 2**exponent, mantissa < 2**53.
"""
import datetime
import enum
import json
import math
import sys
from decimal import Decimal

from sdc11073.xml_types import dataconverters as dc
from sdc11073.xml_types import isoduration as iso

req = json.load(sys.stdin)
out = {}


def me(x: float):
    """float -> [mantissa, exponent] exactly (mantissa odd or zero is NOT required; sign in mantissa)."""
    if x == 0:
        return [0, 0]
    m, e = math.frexp(x)
    return [int(m * (1 << 53)), e - 53]


def err(exc):
    if isinstance(exc, OverflowError):
        return 'OVERFLOW'
    if isinstance(exc, (ValueError, ArithmeticError)):   # decimal.InvalidOperation is an ArithmeticError
        return 'REJECT'
    return 'CRASH:' + type(exc).__name__


def guarded(f, *a):
    try:
        return f(*a)
    except Exception as exc:  # noqa: BLE001
        return err(exc)


T = dc.TimestampConverter
D = dc.DecimalConverter
I = dc.IntegerConverter
B = dc.BooleanConverter
DU = dc.DurationConverter

# ------------------------------------------------------------------ timestamps
if 'ts_window' in req:
    lo, hi = req['ts_window']
    mants, exps, backs = [], [], []
    for n in range(lo, hi):
        x = T.to_py(str(n))
        m, e = me(x)
        mants.append(m)
        exps.append(e)
        backs.append(int(T.to_xml(x)))
    out['ts_window'] = {'m': mants, 'e': exps, 'back': backs}

if 'ts_ns' in req:
    res = []
    for n in req['ts_ns']:
        x = T.to_py(str(n))
        res.append(me(x) + [int(T.to_xml(x))])
    out['ts_ns'] = res

if 'ts_floats' in req:
    res = []
    for m, e in req['ts_floats']:
        x = math.ldexp(m, e)
        s = guarded(T.to_xml, x)
        if not isinstance(s, str) or s.startswith(('REJECT', 'OVERFLOW', 'CRASH')):
            res.append([s])
            continue
        res.append([int(s)] + me(T.to_py(s)))
    out['ts_floats'] = res

if 'ts_exact' in req:
    res = []
    for kind, txt in req['ts_exact']:
        v = int(txt) if kind == 'int' else Decimal(txt)
        res.append(guarded(lambda: int(T.to_xml(v))))
    out['ts_exact'] = res

if 'ts_lex' in req:
    res = []
    for s in req['ts_lex']:
        r = guarded(T.to_py, s)
        res.append(me(r) if isinstance(r, float) else r)
    out['ts_lex'] = res


# ------------------------------------------------------------------ decimals
def dec_tuple(d):
    if not isinstance(d, Decimal):
        return d
    if not d.is_finite():
        return 'NONFINITE:' + str(d)
    t = d.as_tuple()
    return [bool(t.sign), ''.join(map(str, t.digits)), t.exponent]


if 'dec_vals' in req:
    res = []
    for neg, digs, e in req['dec_vals']:
        d = Decimal((1 if neg else 0, tuple(int(c) for c in digs), e))
        s = guarded(D.to_xml, d)
        back = dec_tuple(guarded(D.to_py, s)) if isinstance(s, str) else None
        res.append([s, back])
    out['dec_vals'] = res

if 'dec_lex' in req:
    res = []
    for s in req['dec_lex']:
        d = guarded(D.to_py, s)
        back = guarded(D.to_xml, d) if isinstance(d, Decimal) else None
        res.append([dec_tuple(d), back])
    out['dec_lex'] = res

# ------------------------------------------------------------------ integers
if 'int_vals' in req:
    res = []
    for n in req['int_vals']:
        s = I.to_xml(int(n))
        res.append([s, str(guarded(I.to_py, s))])
    out['int_vals'] = res

if 'int_lex' in req:
    res = []
    for s in req['int_lex']:
        r = guarded(I.to_py, s)
        res.append(str(r) if isinstance(r, int) and not isinstance(r, bool) else r)
    out['int_lex'] = res
    # the unsigned flavours share IntegerConverter.to_py
    out['int_shared_to_py'] = (dc.UnsignedIntConverter.to_py is I.to_py) and (dc.UnsignedLongConverter.to_py is I.to_py)

# ------------------------------------------------------------------ booleans
if 'bool_lex' in req:
    res = []
    for s in req['bool_lex']:
        r = guarded(B.to_py, s)
        res.append(r if isinstance(r, (bool, str)) else 'CRASH:' + type(r).__name__)
    out['bool_lex'] = res
    out['bool_to_xml'] = [B.to_xml(True), B.to_xml(False)]

# ------------------------------------------------------------------ enumerations
if 'enum' in req:
    from sdc11073.xml_types import pm_types, msg_types
    import random
    rng = random.Random(req['enum'])
    klasses = []
    for mod in (pm_types, msg_types):
        for name in sorted(dir(mod)):
            k = getattr(mod, name)
            if isinstance(k, type) and issubclass(k, enum.Enum) and k.__module__ == mod.__name__ and len(k) > 0 \
                    and all(isinstance(mb.value, str) for mb in k):
                klasses.append(k)
    res = []
    for k in klasses:
        conv = dc.EnumConverter(k)
        lits = [mb.value for mb in k]
        tests = list(lits)
        for v in lits[:6]:
            tests += [v.lower(), v.upper(), v + ' ', ' ' + v, v[:-1], v + v[-1:], '', k.__name__]
        tests += [rng.choice(lits)[::-1], 'true', '0']
        cases = []
        for s in tests:
            r = guarded(conv.to_py, s)
            if isinstance(r, enum.Enum):
                cases.append([s, conv.to_xml(r), r.value])
            else:
                cases.append([s, r, None])
        res.append({'class': k.__name__, 'lits': lits, 'cases': cases})
    out['enum'] = res


# ------------------------------------------------------------------ durations
def td_us(seconds):
    td = datetime.timedelta(seconds=float(seconds))
    return td.days * 86_400_000_000 + td.seconds * 1_000_000 + td.microseconds


def dur_py(s):
    r = DU.to_py(s)
    # total_seconds() of a timedelta: the microsecond count is recovered exactly by the same formula
    td = datetime.timedelta(seconds=r)
    return [td_us(r), me(r)]


if 'dur_vals' in req:
    res = []
    for kind, txt in req['dur_vals']:
        v = {'float': float, 'int': int, 'dec': Decimal}[kind](txt)
        s = guarded(DU.to_xml, v)
        if s in ('REJECT', 'OVERFLOW') or s.startswith('CRASH'):
            res.append([s, None, None, None])
            continue
        back = guarded(DU.to_py, s)
        want = datetime.timedelta(seconds=float(v)).total_seconds()
        res.append([s, td_us(v), td_us(back) if isinstance(back, float) else back, back == want])
    out['dur_vals'] = res

if 'dur_lex' in req:
    res = []
    for s in req['dur_lex']:
        r = guarded(DU.to_py, s)
        if isinstance(r, float):
            res.append([me(r), guarded(DU.to_xml, r)])
        else:
            res.append([r, None])
    out['dur_lex'] = res


# ------------------------------------------------------------------ date / time
def dt_tuple(x):
    if not isinstance(x, iso.XsdDateInformation):
        return x
    t = None
    if x.hour is not None:
        t = [x.hour, x.minute, round(x.second * 1_000_000), Decimal(repr(x.second)).as_tuple().exponent >= -6]
    tz = None
    if x.tz_info is not None:
        tz = int(x.tz_info.utcoffset(None).total_seconds()) // 60
    return [x.year, x.month, x.day, t, x.end_of_day, tz]


def dt_make(v):
    y, mo, d, t, eod, tz = v
    return iso.XsdDateInformation(year=y, month=mo, day=d, hour=t and t[0], minute=t and t[1],
                                  second=t and t[2] / 1_000_000, end_of_day=eod,
                                  tz_info=None if tz is None else datetime.timezone(datetime.timedelta(minutes=tz)))


if 'dt_vals' in req:
    res = []
    for v in req['dt_vals']:
        x = guarded(dt_make, v)
        if not isinstance(x, iso.XsdDateInformation):
            res.append([x, None, None])
            continue
        s = str(x)
        back = guarded(iso.parse_date_time, s)
        res.append([s, dt_tuple(back), back == x])
    out['dt_vals'] = res

if 'dt_lex' in req:
    res = []
    for s in req['dt_lex']:
        x = guarded(iso.parse_date_time, s)
        res.append([dt_tuple(x), str(x) if isinstance(x, iso.XsdDateInformation) else None])
    out['dt_lex'] = res

# ------------------------------------------------------------------ the attribute properties use these converters
if 'wiring' in req:
    from sdc11073.xml_types import xml_structure as xs
    w = {}
    for name, conv in (('TimestampAttributeProperty', 'TimestampConverter'), ('CurrentTimestampAttributeProperty', 'TimestampConverter'),
                       ('DecimalAttributeProperty', 'DecimalConverter'), ('DurationAttributeProperty', 'DurationConverter'),
                       ('IntegerAttributeProperty', 'IntegerConverter'), ('BooleanAttributeProperty', 'BooleanConverter'),
                       ('NodeIntProperty', 'IntegerConverter'), ('NodeDecimalProperty', 'DecimalConverter'),
                       ('NodeDurationProperty', 'DurationConverter')):
        cls = getattr(xs, name, None)
        if cls is None:
            w[name] = 'missing'
            continue
        try:
            inst = cls('X') if 'Attribute' in name else cls(None)
            w[name] = getattr(inst._converter, '__name__', type(inst._converter).__name__)
        except Exception as exc:  # noqa: BLE001
            w[name] = 'CRASH:' + type(exc).__name__ + ':' + str(exc)[:80]
    out['wiring'] = w

print(json.dumps(out))
