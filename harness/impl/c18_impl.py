"""Implementation side of C18: drive the real scalar converters of sdc11073 on generated inputs.

stdin: {"ts_window": [lo, hi], "ts_ns": [...], "ts_floats": [[m, e], ...], "ts_exact": [["int"|"dec", str], ...],
        "ts_lex": [...], "dec_vals": [[neg, digits, exp], ...], "dec_lex": [...], "decf_vals": [["float", neg, m, e] | ["int", str]],
        "decf_lex": [...], "int_vals": [...], "int_lex": [...],
        "bool_lex": [...], "enum": seed, "dur_vals": [["float"|"int"|"dec", repr], ...], "dur_lex": [...],
        "dt_vals": [...], "dt_lex": [...], "wiring": 1}
stdout (last line): one JSON object with one list per stream.  Floats never leave this process as floats:
they are returned as (mantissa, exponent) with value = mantissa * 2**exponent, mantissa < 2**53.

The script is TOTAL: every call into the library goes through call() / guarded(), so an exception of any kind, a value
of an unexpected type, a non-finite float or a call that does not come back in time becomes the RESULT OF THAT CASE
(a string 'REJECT' | 'OVERFLOW' | 'CRASH:<exception>' | 'BADTYPE:<type>' | 'NONFINITE:<x>' | 'TIMEOUT' | 'SKIPPED:<why>')
which the oracle judges; a stream whose driver code itself fails is reported in out['_stream_errors'] and the other
streams still run.
"""
import datetime
import enum
import json
import math
import resource
import signal
import sys
from decimal import Decimal

try:     # a converter that allocates without bound (format(Decimal('1E999999999999'), 'f')) gets a MemoryError, not the OOM killer
    resource.setrlimit(resource.RLIMIT_AS, (6 << 30, 6 << 30))
except Exception:  # noqa: BLE001
    pass

from sdc11073.xml_types import dataconverters as dc
from sdc11073.xml_types import isoduration as iso

req = json.load(sys.stdin)
out = {}
stream_errors = {}
ERR_PREFIX = ('REJECT', 'OVERFLOW', 'CRASH', 'BADTYPE', 'NONFINITE', 'TIMEOUT', 'SKIPPED')
CALL_SECONDS = 10


class _Timeout(BaseException):
    pass


def _alarm(signum, frame):
    raise _Timeout


signal.signal(signal.SIGALRM, _alarm)


def is_err(x):
    return isinstance(x, str) and x.startswith(ERR_PREFIX)


def me(x):
    """float -> [mantissa, exponent] exactly (sign in the mantissa); non-finite floats become an error token."""
    if not isinstance(x, float):
        return badtype(x)
    if not math.isfinite(x):
        return 'NONFINITE:' + repr(x)
    if x == 0:
        return [0, 0]
    m, e = math.frexp(x)
    return [int(m * (1 << 53)), e - 53]


def badtype(x):
    return 'BADTYPE:' + type(x).__name__ + ':' + repr(x)[:60]


def err(exc):
    if isinstance(exc, OverflowError):
        return 'OVERFLOW'
    if isinstance(exc, (ValueError, ArithmeticError)):   # decimal.InvalidOperation is an ArithmeticError
        return 'REJECT'
    return 'CRASH:' + type(exc).__name__


def guarded(f, *a):
    """f(*a), or the error token of whatever went wrong"""
    signal.setitimer(signal.ITIMER_REAL, CALL_SECONDS)
    try:
        return f(*a)
    except _Timeout:
        return 'TIMEOUT'
    except Exception as exc:  # noqa: BLE001
        return err(exc)
    finally:
        signal.setitimer(signal.ITIMER_REAL, 0)


def typed(x, *types):
    """x if it is an error token or an instance of one of the types (bool is not an int here), else a BADTYPE token"""
    if is_err(x):
        return x
    if isinstance(x, bool) and bool not in types:
        return badtype(x)
    return x if isinstance(x, types) else badtype(x)


def stream(name):
    """decorator: run the stream if requested; a failure of the driver code is recorded, not raised"""
    def deco(fn):
        if name in req:
            try:
                fn(req[name])
            except BaseException as exc:  # noqa: BLE001
                if isinstance(exc, (KeyboardInterrupt, SystemExit)):
                    raise
                import traceback
                stream_errors[name] = ''.join(traceback.format_exception(exc))[-1500:]
        return fn
    return deco


T = dc.TimestampConverter
D = dc.DecimalConverter
I = dc.IntegerConverter
B = dc.BooleanConverter
DU = dc.DurationConverter


# ------------------------------------------------------------------ timestamps
def ts_back(x):
    """to_xml of a float read by to_py, as an int (or an error token)"""
    s = typed(guarded(T.to_xml, x), str)
    if is_err(s):
        return s
    return typed(guarded(int, s), int)


@stream('ts_window')
def _(w):
    lo, hi = w
    mants, exps, backs, odd = [], [], [], {}
    for n in range(lo, hi):
        x = typed(guarded(T.to_py, str(n)), float)
        mx = x if is_err(x) else me(x)
        if is_err(mx):
            odd[str(n)] = mx
            mants.append(0)
            exps.append(0)
            backs.append(-1)
            continue
        b = ts_back(x)
        if is_err(b):
            odd[str(n)] = b
            b = -1
        mants.append(mx[0])
        exps.append(mx[1])
        backs.append(b)
    out['ts_window'] = {'m': mants, 'e': exps, 'back': backs, 'odd': odd}


@stream('ts_ns')
def _(ns):
    res = []
    for n in ns:
        x = typed(guarded(T.to_py, str(n)), float)
        mx = x if is_err(x) else me(x)
        if is_err(mx):
            res.append([0, 0, -1, mx])
            continue
        b = ts_back(x)
        res.append(mx + ([b] if not is_err(b) else [-1, b]))
    out['ts_ns'] = res


@stream('ts_floats')
def _(fl):
    res = []
    for m, e in fl:
        x = math.ldexp(m, e)
        s = typed(guarded(T.to_xml, x), str)
        n = s if is_err(s) else typed(guarded(int, s), int)
        if is_err(n):
            res.append([n])
            continue
        back = typed(guarded(T.to_py, s), float)
        mb = back if is_err(back) else me(back)
        res.append([mb] if is_err(mb) else [n] + mb)
    out['ts_floats'] = res


@stream('ts_exact')
def _(cases):
    res = []
    for kind, txt in cases:
        v = int(txt) if kind == 'int' else Decimal(txt)
        s = typed(guarded(T.to_xml, v), str)
        res.append(s if is_err(s) else typed(guarded(int, s), int))
    out['ts_exact'] = res


@stream('ts_lex')
def _(cases):
    res = []
    for s in cases:
        r = typed(guarded(T.to_py, s), float)
        res.append(r if is_err(r) else me(r))
    out['ts_lex'] = res


# ------------------------------------------------------------------ decimals
MAX_EXP = 5000      # Decimals beyond this are never formatted (a string of that many zeros is not a conversion result)


def dec_tuple(d):
    if is_err(d):
        return d
    if not isinstance(d, Decimal):
        return badtype(d)
    if not d.is_finite():
        return 'NONFINITE:' + str(d)
    t = d.as_tuple()
    return [bool(t.sign), ''.join(map(str, t.digits)), t.exponent]


def dec_to_xml(d):
    if not isinstance(d, Decimal) or not d.is_finite():
        return None
    t = d.as_tuple()
    if abs(t.exponent) > MAX_EXP or len(t.digits) > MAX_EXP:
        return 'SKIPPED:huge-exponent'
    return typed(guarded(D.to_xml, d), str)


@stream('dec_vals')
def _(cases):
    res = []
    for neg, digs, e in cases:
        d = Decimal((1 if neg else 0, tuple(int(c) for c in digs), e))
        s = typed(guarded(D.to_xml, d), str)
        back = None if is_err(s) else dec_tuple(guarded(D.to_py, s))
        res.append([s, back])
    out['dec_vals'] = res


@stream('dec_lex')
def _(cases):
    res = []
    for s in cases:
        d = guarded(D.to_py, s)
        res.append([dec_tuple(d), dec_to_xml(d)])
    out['dec_lex'] = res


# ------------------------------------------------------------------ decimals, float / int flavour
# DecimalConverter.to_xml accepts float and int (float path: _float_to_xml); with USE_DECIMAL_TYPE = False to_py returns
# float (a '.' in the text) or int.  The flag is a class attribute: set for these streams only, restored afterwards.
def num_out(v):
    if is_err(v):
        return v
    if isinstance(v, bool):
        return badtype(v)
    if isinstance(v, float):
        m = me(v)
        return m if is_err(m) else ['float', m, math.copysign(1.0, v) < 0]
    if isinstance(v, int):
        return ['int', str(v)]
    return badtype(v)


def float_mode(fn):
    old = D.USE_DECIMAL_TYPE
    D.USE_DECIMAL_TYPE = False
    try:
        return fn()
    finally:
        D.USE_DECIMAL_TYPE = old


@stream('decf_vals')
def _(cases):
    def go():
        res = []
        for c in cases:
            x = int(c[1]) if c[0] == 'int' else math.copysign(math.ldexp(c[2], c[3]), -1.0 if c[1] else 1.0)
            s = typed(guarded(D.to_xml, x), str)
            if is_err(s):
                res.append([s, None, None])
                continue
            back = guarded(D.to_py, s)
            again = None if is_err(back) or not isinstance(back, (int, float)) else typed(guarded(D.to_xml, back), str)
            res.append([s, num_out(back), again])
        return res
    out['decf_vals'] = float_mode(go)


@stream('decf_lex')
def _(cases):
    out['decf_lex'] = float_mode(lambda: [num_out(guarded(D.to_py, s)) for s in cases])
    out['decf_flag_restored'] = D.USE_DECIMAL_TYPE is True


# ------------------------------------------------------------------ integers
@stream('int_vals')
def _(cases):
    res = []
    for n in cases:
        s = typed(guarded(I.to_xml, int(n)), str)
        back = None if is_err(s) else typed(guarded(I.to_py, s), int)
        res.append([s, back if back is None or is_err(back) else str(back)])
    out['int_vals'] = res


@stream('int_lex')
def _(cases):
    res = []
    for s in cases:
        r = typed(guarded(I.to_py, s), int)
        res.append(r if is_err(r) else str(r))
    out['int_lex'] = res
    # the unsigned flavours share IntegerConverter.to_py
    out['int_shared_to_py'] = (dc.UnsignedIntConverter.to_py is I.to_py) and (dc.UnsignedLongConverter.to_py is I.to_py)


# ------------------------------------------------------------------ booleans
@stream('bool_lex')
def _(cases):
    out['bool_lex'] = [typed(guarded(B.to_py, s), bool) for s in cases]
    out['bool_to_xml'] = [typed(guarded(B.to_xml, True), str), typed(guarded(B.to_xml, False), str)]


# ------------------------------------------------------------------ enumerations
@stream('enum')
def _(seed):
    from sdc11073.xml_types import pm_types, msg_types
    import random
    rng = random.Random(seed)
    klasses = []
    for mod in (pm_types, msg_types):
        for name in sorted(dir(mod)):
            k = getattr(mod, name)
            if isinstance(k, type) and issubclass(k, enum.Enum) and k.__module__ == mod.__name__ and len(k) > 0 \
                    and all(isinstance(mb.value, str) for mb in k):
                klasses.append(k)
    res = []
    for k in klasses:
        conv = dc.EnumConverter(k)
        lits = [mb.value for mb in k]
        tests = list(lits)
        for v in lits[:6]:
            tests += [v.lower(), v.upper(), v + ' ', ' ' + v, v[:-1], v + v[-1:], '', k.__name__]
        # near misses: member NAMES (python's Enum['NAME'] / getattr would accept them), white space of every kind,
        # garbage after a valid literal and before one, a literal of the same class glued to another one
        v = rng.choice(lits)
        w = rng.choice(lits)
        tests += [rng.choice(list(k)).name, k.__name__ + '.' + rng.choice(list(k)).name, v + '\n', '\t' + v, v + '\x0b', '\xa0' + v,
                  v + 'x', 'x' + v, v + w, v + ' ' + w, v.swapcase(), v.capitalize(), v[:1] + ' ' + v[1:], v + '\x00', repr(v)]
        tests += [rng.choice(lits)[::-1], 'true', '0']
        cases = []
        for s in tests:
            r = guarded(conv.to_py, s)
            if isinstance(r, enum.Enum):
                cases.append([s, typed(guarded(conv.to_xml, r), str), r.value if isinstance(r.value, str) else badtype(r.value)])
            else:
                cases.append([s, r if is_err(r) else badtype(r), None])
        res.append({'class': k.__name__, 'lits': lits, 'cases': cases})
    out['enum'] = res


# ------------------------------------------------------------------ durations
def td_us(seconds):
    td = datetime.timedelta(seconds=float(seconds))
    return td.days * 86_400_000_000 + td.seconds * 1_000_000 + td.microseconds


@stream('dur_vals')
def _(cases):
    res = []
    for kind, txt in cases:
        v = {'float': float, 'int': int, 'dec': Decimal}[kind](txt)
        s = typed(guarded(DU.to_xml, v), str)
        if is_err(s):
            res.append([s, None, None, None])
            continue
        back = typed(guarded(DU.to_py, s), float)
        want = guarded(lambda: datetime.timedelta(seconds=float(v)).total_seconds())
        res.append([s, guarded(td_us, v), back if is_err(back) else guarded(td_us, back), (not is_err(back)) and back == want])
    out['dur_vals'] = res


@stream('dur_lex')
def _(cases):
    res = []
    for s in cases:
        r = typed(guarded(DU.to_py, s), float)
        if is_err(r):
            res.append([r, None])
            continue
        mr = me(r)
        res.append([mr, None if is_err(mr) else typed(guarded(DU.to_xml, r), str)])
    out['dur_lex'] = res


# ------------------------------------------------------------------ date / time
def dt_tuple(x):
    if is_err(x):
        return x
    if not isinstance(x, iso.XsdDateInformation):
        return badtype(x)
    t = None
    if x.hour is not None or x.minute is not None or x.second is not None:
        sec = me(x.second)
        if is_err(sec) or not isinstance(x.hour, int) or not isinstance(x.minute, int):
            return badtype((x.hour, x.minute, x.second))
        t = [x.hour, x.minute, round(x.second * 1_000_000), Decimal(repr(x.second)).as_tuple().exponent >= -6, sec]
    tz = None
    if x.tz_info is not None:
        tz = int(x.tz_info.utcoffset(None).total_seconds()) // 60
    for f in (x.year, x.month, x.day):
        if f is not None and (not isinstance(f, int) or isinstance(f, bool)):
            return badtype(f)
    return [x.year, x.month, x.day, t, bool(x.end_of_day), tz]


def dt_make(v):
    y, mo, d, t, eod, tz = v
    return iso.XsdDateInformation(year=y, month=mo, day=d, hour=t and t[0], minute=t and t[1],
                                  second=t and t[2] / 1_000_000, end_of_day=eod,
                                  tz_info=None if tz is None else datetime.timezone(datetime.timedelta(minutes=tz)))


@stream('dt_vals')
def _(cases):
    res = []
    for v in cases:
        x = guarded(dt_make, v)
        if not isinstance(x, iso.XsdDateInformation):
            res.append([x if is_err(x) else badtype(x), None, None])
            continue
        s = typed(guarded(str, x), str)
        if is_err(s):
            res.append([s, None, None])
            continue
        back = guarded(iso.parse_date_time, s)
        res.append([s, guarded(dt_tuple, back), guarded(lambda: back == x)])
    out['dt_vals'] = res


@stream('dt_lex')
def _(cases):
    res = []
    for s in cases:
        x = guarded(iso.parse_date_time, s)
        t = guarded(dt_tuple, x)
        res.append([t, None if is_err(t) else typed(guarded(str, x), str)])
    out['dt_lex'] = res


# ------------------------------------------------------------------ the attribute properties use these converters
@stream('wiring')
def _(_arg):
    from sdc11073.xml_types import xml_structure as xs
    w = {}
    for name, conv in (('TimestampAttributeProperty', 'TimestampConverter'), ('CurrentTimestampAttributeProperty', 'TimestampConverter'),
                       ('DecimalAttributeProperty', 'DecimalConverter'), ('DurationAttributeProperty', 'DurationConverter'),
                       ('IntegerAttributeProperty', 'IntegerConverter'), ('BooleanAttributeProperty', 'BooleanConverter'),
                       ('NodeIntProperty', 'IntegerConverter'), ('NodeDecimalProperty', 'DecimalConverter'),
                       ('NodeDurationProperty', 'DurationConverter')):
        cls = getattr(xs, name, None)
        if cls is None:
            w[name] = 'missing'
            continue
        try:
            inst = cls('X') if 'Attribute' in name else cls(None)
            w[name] = getattr(inst._converter, '__name__', type(inst._converter).__name__)
        except Exception as exc:  # noqa: BLE001
            w[name] = 'CRASH:' + type(exc).__name__ + ':' + str(exc)[:80]
    out['wiring'] = w


if stream_errors:
    out['_stream_errors'] = stream_errors
print(json.dumps(out))
