"""Implementation side of C16: drives the real SdcLocation / LocationContextStateContainer / mk_scopes.

stdin : {"roundtrip": [{"root": str|None, "vals": [str|None]*n}],
         "published": [{"vals": [...], "ident_root": "keep"|None|str, "ident_ext": "keep"|None|str,
                        "probes": [{"root": str|None, "vals": [...]}]}],
         "foreign":   [{"self": {"root":..., "vals": [...]}, "services": [None | [scope, ...]]}]}
         "provider":  [{"vals": [...], "init": "fresh"|"detail-none"|"updated-before"|"extra-idents",
                        "prior": [...]|None, "extra": [{"root": str|None, "ext": str|None, "at": int}],
                        "probes": [{"root":..., "vals": [...]}]}]}
stdout: one JSON object, same keys, one result per case.  Strings leave as lists of UTF-8 byte values."""
import json
import sys
import urllib.parse
import warnings
from unittest import mock

warnings.simplefilter('ignore')

from sdc11073.location import SdcLocation, UrlSchemeError
from sdc11073.mdib import statecontainers
from sdc11073.provider import scopesfactory
from sdc11073.wsdiscovery.service import Service
from sdc11073.xml_types import pm_types
from sdc11073.xml_types.wsd_types import ScopesType

req = json.load(sys.stdin)
ELEMS = SdcLocation.url_elements


def b(s):
    return None if s is None else list(s.encode('utf-8'))


def mk_loc(d):
    kw = {e: v for e, v in zip(ELEMS, d['vals'])}
    if d.get('root') is not None:
        kw['root'] = d['root']
    return SdcLocation(**kw)


def exc_kind(e):
    if isinstance(e, UrlSchemeError):
        return 'scheme'
    if isinstance(e, ValueError):        # includes UnicodeError
        return 'value'
    return 'other:' + type(e).__name__


def parse(text):
    try:
        loc = SdcLocation.from_scope_string(text)
    except Exception as e:  # noqa: BLE001
        return {'err': exc_kind(e), 'msg': str(e)[:80]}
    return {'root': b(loc._root), 'vals': [b(getattr(loc, e)) for e in ELEMS]}


def split_verdict(text):
    """How urllib.parse.urlsplit treats the text: 'ok', 'ipv6' (unbalanced bracket, modelled) or 'bad'
    (ipaddress / NFKC checks, abstract in the model)."""
    try:
        urllib.parse.urlsplit(text)
    except ValueError as e:
        return 'ipv6' if str(e) == 'Invalid IPv6 URL' else 'bad'
    return 'ok'


def utf8_clean(text):
    """True when every percent-decoded piece the model looks at is valid UTF-8 (byte model exact)."""
    try:
        urllib.parse.unquote_to_bytes(text).decode('utf-8')
    except UnicodeDecodeError:
        return False
    return True


def run_roundtrip(c):
    try:
        loc = mk_loc(c)
        s = loc.scope_string
    except Exception as e:  # noqa: BLE001
        return {'scope': None, 'err': exc_kind(e)}
    return {'scope': b(s), 'text': s, 'parse': parse(s)}


def mk_mdib(states):
    mdib = mock.MagicMock()
    mdib.data_model.pm_types.ContextAssociation.ASSOCIATED = pm_types.ContextAssociation.ASSOCIATED
    for n in ('Location', 'Operator', 'Ensemble', 'Workflow', 'Means'):
        setattr(mdib.data_model.pm_names, f'{n}ContextDescriptor', f'{n}ContextDescriptor')
    mdib.data_model.pm_names.MdsDescriptor = 'MdsDescriptor'
    mdib.entities.by_node_type.side_effect = lambda nt: (
        [mock.MagicMock(states={f'h{i}': s for i, s in enumerate(states)})] if nt == 'LocationContextDescriptor' else [])
    return mdib


def matches(loc, text):
    try:
        return bool(loc._scope_string_matches(text))
    except Exception as e:  # noqa: BLE001
        return 'raise:' + exc_kind(e)


def run_published(c):
    loc = mk_loc({'vals': c['vals']})
    st = statecontainers.LocationContextStateContainer(mock.MagicMock(Handle='d', DescriptorVersion=0), 'h')
    st.LocationDetail = None
    try:
        st.update_from_sdc_location(loc)
    except ValueError:
        return {'state': 'raise'}
    if c.get('ident_root', 'keep') != 'keep':
        st.Identification[0].Root = c['ident_root']
    if c.get('ident_ext', 'keep') != 'keep':
        st.Identification[0].Extension = c['ident_ext']
    try:
        texts = scopesfactory.mk_scopes(mk_mdib([st])).text
    except Exception as e:  # noqa: BLE001
        return {'state': 'mk_scopes-raise:' + exc_kind(e)}
    pubs = [t for t in texts if t != scopesfactory.KEY_PURPOSE_SERVICE_PROVIDER]
    res = []
    for p in c['probes']:
        pl = mk_loc(p)
        res.append([matches(pl, t) for t in pubs])
    return {'state': 'ok', 'scopes': [b(t) for t in pubs], 'texts': pubs, 'n_texts': len(texts),
            'split': [split_verdict(t) for t in pubs], 'inside': res}


def run_foreign(c):
    me = mk_loc(c['self'])
    services = []
    for i, sc in enumerate(c['services']):
        if sc is None:
            scopes = None
        else:
            scopes = ScopesType()
            scopes.text.extend(sc)
        services.append(Service(types=None, scopes=scopes, x_addrs=None, epr=f'urn:uuid:{i}', instance_id='1'))
    flat = [t for sc in c['services'] if sc is not None for t in sc]
    out = {'split': {t: split_verdict(t) for t in flat}, 'clean': {t: utf8_clean(t) for t in flat},
           'parse': {t: parse(t) for t in flat}, 'match': {t: matches(me, t) for t in flat}}
    try:
        kept = me.filter_services_inside(services)
    except Exception as e:  # noqa: BLE001
        out['kept'] = 'raise:' + exc_kind(e)
        out['msg'] = str(e)[:100]
        return out
    out['kept'] = [services.index(s) for s in kept]
    return out


DETAIL_ATTRS = ('PoC', 'Room', 'Bed', 'Facility', 'Building', 'Floor')


def run_provider(c):
    """The provider-side path of the statement, end to end: SdcLocation -> update_from_sdc_location on a state in
    the given initial condition -> mk_scopes -> Service -> from_scope_string / filter_services_inside."""
    loc = mk_loc({'vals': c['vals']})
    st = statecontainers.LocationContextStateContainer(mock.MagicMock(Handle='d', DescriptorVersion=0), 'h')
    init = c['init']
    if init == 'detail-none':
        st.LocationDetail = None
    elif init == 'updated-before':             # the state carried another location before (both branches seen)
        st.update_from_sdc_location(mk_loc({'vals': c['prior']}))
    elif init == 'none-then-updated':
        st.LocationDetail = None
        st.update_from_sdc_location(mk_loc({'vals': c['prior']}))
    elif init == 'idents-before':              # identifications present before the update (they are replaced)
        st.Identification = [pm_types.InstanceIdentifier(root=x['root'], extension_string=x['ext']) for x in c['extra']]
    try:
        st.update_from_sdc_location(loc)
    except ValueError:
        return {'state': 'raise'}
    if init != 'idents-before':
        for x in c.get('extra', []):           # additional pm:Identification (BICEPS allows 1..n), any position
            st.Identification.insert(x['at'], pm_types.InstanceIdentifier(root=x['root'], extension_string=x['ext']))
    out = {'state': 'ok',
           'detail': None if st.LocationDetail is None else [b(getattr(st.LocationDetail, a)) for a in DETAIL_ATTRS],
           'idents': [[b(i.Root), b(i.Extension)] for i in st.Identification]}
    try:
        scopes = scopesfactory.mk_scopes(mk_mdib([st]))
    except Exception as e:  # noqa: BLE001
        out['state'] = 'mk_scopes-raise:' + exc_kind(e)
        return out
    texts = list(scopes.text)
    pubs = [t for t in texts if t.lower().startswith(SdcLocation.scheme + ':')]
    service = Service(types=None, scopes=scopes, x_addrs=None, epr='urn:uuid:p', instance_id='1')
    kept, rows = [], []
    for p in c['probes']:
        pl = mk_loc(p)
        try:
            kept.append(pl.filter_services_inside([service]) == [service])
        except Exception as e:  # noqa: BLE001
            kept.append('raise:' + exc_kind(e))
        rows.append([matches(pl, t) for t in pubs])
    out.update({'texts': pubs, 'scopes': [b(t) for t in pubs], 'n_texts': len(texts),
                'others': [t for t in texts if t not in pubs],
                'split': [split_verdict(t) for t in pubs], 'parse': [parse(t) for t in pubs],
                'kept': kept, 'inside': rows})
    return out


try:
    _probe_st = statecontainers.LocationContextStateContainer(mock.MagicMock(Handle='d', DescriptorVersion=0), 'h')
    _probe_st.update_from_sdc_location(SdcLocation(fac='x'))
    IDENT_ROOT = _probe_st.Identification[0].Root
except Exception:  # noqa: BLE001
    IDENT_ROOT = None
import inspect  # noqa: E402

res = {'provider': [run_provider(c) for c in req.get('provider', [])],
       'scheme': SdcLocation.scheme, 'ident_root': IDENT_ROOT,
       'default_root': inspect.signature(SdcLocation.__init__).parameters['root'].default,
       'roundtrip': [run_roundtrip(c) for c in req.get('roundtrip', [])],
       'published': [run_published(c) for c in req.get('published', [])],
       'foreign': [run_foreign(c) for c in req.get('foreign', [])],
       'elements': list(ELEMS)}
print(json.dumps(res))
