"""C04 stream `periodic`: the REAL PeriodicReportsHandler (started by SdcProvider.start_all like in production) on a
virtual clock, two subscribers.

mode `retrievability`: descriptors of every kind get Retrievability = Periodic (two periods), so the handler runs
    _periodic_reports_send_loop (collects state copies under the MDIB lock and labels them with an MdibVersion)
mode `fixed`: start_all(periodic_reports_interval=...) -> _simple_periodic_reports_send_loop: the copies stored by
    every commit (PeriodicStates(version of the commit, copies)) are sent at the next tick

The periodic thread is the watched thread of c04_common.Sched: at EVERY point at which it does not hold the MDIB lock
(before it takes the free lock, after it released it, at the lock of the periodic store, at every hand-over to a
send_periodic_* function, at every sleep) a writer thread commits transactions that change the very states the
periodic reports carry, and the periodic thread waits for it.  Recorded: per MdibVersion the value of every tracked state
(inside the commit), every PeriodicStates list handed to a service, every periodic report on the wire per subscriber.
The oracle is in props/c04.py."""
import json
import random
import sys
import threading

import mdibrun
mdibrun.preimport()
from world import World  # noqa: E402

import c04_common as cc  # noqa: E402

from sdc11073 import intervaltimer  # noqa: E402
from sdc11073.provider import periodicreports  # noqa: E402
from sdc11073.xml_types.pm_types import Retrievability, RetrievabilityInfo, RetrievabilityMethod  # noqa: E402

req = json.load(sys.stdin)
_stdout, sys.stdout = sys.stdout, sys.stderr
INV = req['inv']
PNAME = 'DevPeriodicSendLoop'
SEND = {'metric': ('state_event_service', 'send_periodic_metric_report', 'PeriodicMetricReport'),
        'alert': ('state_event_service', 'send_periodic_alert_report', 'PeriodicAlertReport'),
        'component': ('state_event_service', 'send_periodic_component_state_report', 'PeriodicComponentReport'),
        'operational': ('state_event_service', 'send_periodic_operational_state_report', 'PeriodicOperationalStateReport'),
        'context': ('context_service', 'send_periodic_context_report', 'PeriodicContextReport')}
EPISODIC = {'metric': 'EpisodicMetricReport', 'alert': 'EpisodicAlertReport', 'component': 'EpisodicComponentReport',
            'operational': 'EpisodicOperationalStateReport', 'context': 'EpisodicContextReport'}


class Gate:
    """the periodic thread's sleeps: it parks here until the driver lets it go on; the virtual clock advances by
    exactly the requested time"""

    def __init__(self):
        self.cv = threading.Condition()
        self.arrived = 0
        self.permits = 0
        self.now = 1000.0
        self.at_sleep = None

    def sleep(self, dt):
        if threading.current_thread().name != PNAME:
            return
        if self.at_sleep:
            self.at_sleep()
        with self.cv:
            self.arrived += 1
            self.cv.notify_all()
            self.cv.wait_for(lambda: self.permits > 0)
            self.permits -= 1
        self.now += max(dt, 0.0)

    def run(self, k, timeout=180):
        with self.cv:
            target = self.arrived + k
            self.permits += k
            self.cv.notify_all()
            return self.cv.wait_for(lambda: self.arrived >= target, timeout=timeout)

    def wait_arrival(self, n=1, timeout=60):
        with self.cv:
            return self.cv.wait_for(lambda: self.arrived >= n, timeout=timeout)


def run_mode(mode, seed, rounds):
    rng = random.Random(seed)
    gate = Gate()
    fake = type(sys)('time')
    import time as _t
    fake.__dict__.update(_t.__dict__)
    fake.sleep = gate.sleep
    fake.time = fake.monotonic = fake.perf_counter = lambda: gate.now
    periodicreports.time = fake
    intervaltimer.sleep = gate.sleep
    intervaltimer.perf_counter = lambda: gate.now
    died = []
    # only the periodic thread counts (an exception in it ends all periodic reporting)
    threading.excepthook = lambda a: died.append(f'{PNAME}: {a.exc_type.__name__}: {a.exc_value}'[:300]) \
        if a.thread is not None and a.thread.name == PNAME else None

    w = World(async_subscriptions=False, start=False)
    pm = w.provider.mdib
    pm.pre_commit_handler = None
    pm.post_commit_handler = None
    canon = mdibrun.Canon()
    nsh = pm.data_model.ns_helper
    sch = cc.Sched()
    cc.install_locks(pm, sch)
    types = INV['types']
    ctx_descr = ([h for h in INV['ctx'] if types[h] == 'PatientContextDescriptor'] or INV['ctx'])[0]
    # the states the periodic reports of this run carry: two periods, every kind
    pick = {k: rng.sample(INV[k], min(len(INV[k]), 3)) for k in ('metric', 'alert', 'comp', 'op')}
    groups = {500: {'metric': pick['metric'][:2], 'alert': pick['alert'][:1], 'component': pick['comp'][:2],
                    'operational': pick['op'][:1]},
              1500: {'metric': pick['metric'][2:3], 'alert': pick['alert'][1:2], 'operational': pick['op'][1:2],
                     'context': [ctx_descr]}}
    period_of, kind_of = {}, {}
    for p, g in groups.items():
        for kind, hs in g.items():
            for h in hs:
                period_of[h], kind_of[h] = p, kind
    if mode == 'retrievability':
        for h, p in period_of.items():
            descr = pm.descriptions.handle.get_one(h)
            retr_list = descr.get_retrievability()
            if len(retr_list) == 0:
                retr_list.append(Retrievability())
            retr_list[0].By.append(RetrievabilityInfo(RetrievabilityMethod.PERIODIC, update_period=p / 1000))
            descr.set_retrievability(retr_list)
        pm.xtra.update_retrievability_lists()

    def track():
        out = {}
        for h, kind in kind_of.items():
            if kind == 'context':
                for s in pm.context_states.descriptor_handle.get(h, []):
                    out['c:' + s.Handle] = canon.any_state(s, nsh)
            else:
                s = pm.states.descriptor_handle.get_one(h, allow_none=True)
                if s is not None:
                    out[h] = canon.any_state(s, nsh)
        return out
    rec = cc.Recorder(pm, canon, track=track)
    inv_p = dict(INV)
    inv_p.update({'metric': pick['metric'], 'alert': pick['alert'][:2], 'comp': pick['comp'][:2], 'op': pick['op'][:2]})
    wr = cc.Writers(pm, inv_p, nslots=3)
    wr.max_ctx = 5
    # an application observer that writes into every state object the commit publishes through the *_by_handle
    # observables (they are published after the reports were sent and the copies for periodic reports were stored):
    # neither the MDIB nor the retained copies may follow
    from sdc11073 import observableproperties as properties

    def meddle(published):
        for st in (published or {}).values():
            try:
                mdibrun.set_payload(st, 987654, wr.pmt)
            except Exception:  # noqa: BLE001
                pass
    if req.get('meddle', True):
        properties.strongbind(pm, metrics_by_handle=meddle, alert_by_handle=meddle, component_by_handle=meddle,
                              context_by_handle=meddle, operation_by_handle=meddle)
    wr.mutate_after = req.get('mutate_after', True)

    w.provider.start_all(start_rtsample_loop=False, shared_http_server=w.provider_server,
                         periodic_reports_interval=1.0 if mode == 'fixed' else None)
    handler = w.provider._periodic_reports_handler
    if not gate.wait_arrival(1):
        return {'mode': mode, 'harness_error': f'the periodic thread did not start ({type(handler).__name__})', 'died': died}
    handler._periodic_reports_lock = cc.ProxyLock(threading.Lock(), 'store', sch)
    p_ident = handler._periodic_reports_thread.ident
    cons = [w.add_consumer(), w.add_consumer()]
    wr.setup()
    hist = {int(pm.mdib_version): track()}
    hist.update({v: c['tracked'] for v, c in rec.commits.items()})

    events = []
    yields = []
    counter = [0]
    full_until = [0]
    state = {'round': 0}
    KW = ['metric', 'alert', 'component', 'operational', 'context', 'descriptor']

    def burst(kinds):
        for kind in kinds:
            counter[0] += 1
            wr.tx(kind, counter[0] % 3, counter[0] * 2 + (counter[0] // 6) % 2)

    def on_yield(idx, when, name):
        if state['round'] <= full_until[0]:
            kinds = rng.sample(KW, len(KW))
        else:
            kinds = rng.sample(KW, rng.choice([0, 1, 1, 2, 3]))
        v0 = int(pm.mdib_version)
        if kinds:
            sch.run_and_join(lambda: burst(kinds))
        yields.append([state['round'], f'{when}-{name}', kinds, [v0, int(pm.mdib_version)]])

    def wrap(kind):
        svc_name, meth, rname = SEND[kind]
        svc = getattr(w.provider.hosted_services, svc_name)
        orig = getattr(svc, meth)

        def wrapper(periodic_states_list, mdib_version_group):
            me = threading.get_ident() == p_ident
            if me and sch.first == p_ident:
                sch.at('pre', 'send-' + kind)       # a commit between the hand-over and the building of the report
            ev = {'kind': kind, 'report': rname, 'round': state['round'], 'by_periodic_thread': me,
                  'arg_version': int(mdib_version_group.mdib_version), 'version_at_send': int(pm.mdib_version),
                  'lists': [{'label': int(ps.mdib_version),
                             'states': [canon.any_state(s, nsh) for s in ps.states],
                             'mds': [canon.h(s.source_mds) for s in ps.states]} for ps in periodic_states_list],
                  'log_from': len(w.net.log)}
            try:
                return orig(periodic_states_list, mdib_version_group)
            finally:
                ev['log_to'] = len(w.net.log)
                events.append(ev)
        setattr(svc, meth, wrapper)
    for kind in SEND:
        wrap(kind)

    gate.at_sleep = lambda: sch.at('at', 'sleep') if sch.first == p_ident else None
    full_until[0] = req.get('full_rounds', 3)
    sch.watch(p_ident, on_yield)
    ok = True
    for r in range(1, rounds + 1):
        state['round'] = r
        ok = gate.run(1)
        if not ok or died:
            break
    sch.unwatch()
    gate.at_sleep = None
    hist.update({v: c['tracked'] for v, c in rec.commits.items()})
    # what is still waiting in the periodic store (fixed mode: commits after the last tick)
    leftover = {}
    for kind, attr in (('metric', '_periodic_metric_reports'), ('alert', '_periodic_alert_reports'),
                       ('component', '_periodic_component_state_reports'), ('context', '_periodic_context_state_reports'),
                       ('operational', '_periodic_operational_state_reports')):
        leftover[kind] = [{'label': int(ps.mdib_version), 'states': [canon.any_state(s, nsh) for s in ps.states]}
                          for ps in getattr(handler, attr, [])]
    wire = {c._verif_server.netloc: {} for c in cons}
    for c in cons:
        for r in cc.arrivals(w, c, canon):
            wire[c._verif_server.netloc][r['n']] = r
    for ev in events:
        ev['wire'] = {netloc: [r for n, r in sorted(d.items()) if ev['log_from'] <= n < ev['log_to']
                               and (r['kind'] in cc.PERIODIC or r['kind'] == 'UNPARSABLE')]
                      for netloc, d in wire.items()}
    # diagnostics: the MdibVersions whose recorded values the handed copies actually show (first .. last)
    labels = set()
    for ev in events:
        for lst in ev['lists']:
            labels.add(lst['label'])
            if mode == 'retrievability':
                match = [v for v in sorted(hist) if all(
                    hist[v].get(('c:' + st[0]) if ev['kind'] == 'context' else st[0]) == st for st in lst['states'])]
                lst['copies_show_versions'] = [match[0], match[-1]] if match else None
    if mode == 'retrievability':
        hist_out = {str(v): t for v, t in hist.items() if v in labels}
        commits_out = {str(v): {'kind': c['kind']} for v, c in rec.commits.items()}
    else:
        hist_out = {}
        commits_out = {str(v): {'kind': c['kind'], 'expect': {k: x for k, x in c['expect'].items() if k in EPISODIC.values()}}
                       for v, c in rec.commits.items()}
    out = {'mode': mode, 'seed': seed, 'rounds': rounds, 'completed': bool(ok), 'died': list(died),
           'thread_alive': handler._periodic_reports_thread.is_alive(),
           'errors': sch.errors + rec.problems, 'groups': {str(p): g for p, g in groups.items()},
           'period_of': period_of, 'kind_of': kind_of, 'seq': pm.sequence_id, 'inst': pm.instance_id,
           'hist': hist_out, 'commits': commits_out, 'versions_recorded': [min(hist), max(hist), len(hist)],
           'commit_order': rec.order, 'events': events, 'leftover': leftover, 'yields': yields,
           'final_version': int(pm.mdib_version), 'virtual_seconds': round(gate.now - 1000.0, 3)}
    w.stop()
    return out


res = []
for i, mode in enumerate(req.get('modes', ['retrievability', 'fixed'])):
    res.append(run_mode(mode, req.get('seed', 1) * 10 + i, req.get('rounds', {}).get(mode, 8)))
sys.stdout = _stdout
print(json.dumps({'runs': res}))
