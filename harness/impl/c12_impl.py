"""Implementation side of C12 (stream `alias-types`): construct / parse / copy / update / nested-write / in-place
list operation (append, pop, clear) histories on the REAL container and data-type classes; after every operation
the sharing graph (id() of every nested mutable object reachable from every class default, every default-ARGUMENT
object of a method and every instance) and the values are recorded.  A member that IS a default-argument object is
described to the model as ['A', k] (XArg).  The identity-only streams live in c12b_impl.py.

stdin : {"discover": true} | {"cases": [{"cls": key, "seed": n, "ops": [[kind, a, b, c], ...]}]}
stdout: {"classes": [...], "sites": [...]} | {"traces": [...]}"""
import copy
import hashlib
import json
import random
import sys

from lxml import etree

import xs_gen as G
import xs_lib as X
from sdc11073.xml_types import xml_structure as xs

req = json.load(sys.stdin)
# the reader produces xml_utils.QName (which can be deep-copied); values appended by this driver must be the same kind
from sdc11073 import xml_utils as _xu  # noqa: E402
_orig_qname = G.Gen.qname
G.Gen.qname = lambda self: _xu.QName(_orig_qname(self).text)
CLASSES = {}
for _c in X.all_classes():
    try:
        X.class_props(_c)
        CLASSES[X.class_key(_c)] = _c
    except X.BrokenClass:
        pass
SITES = X.default_sites(list(CLASSES.values()))
SITE_OF_PROP = {id(p): i for i, (_, _, p, _) in enumerate(SITES)}


def arg_default_sites():
    """mutable objects stored as default ARGUMENT values of methods of the classes: [(class key, 'func #i', object)]
    (Python evaluates them once: an __init__ that stores one hands the same object to every instance)"""
    import inspect
    import types
    out, seen = [], set()
    for cls in CLASSES.values():
        for klass in inspect.getmro(cls):
            if not klass.__module__.startswith('sdc11073.'):
                continue
            for name, f in list(klass.__dict__.items()):
                f = getattr(f, '__func__', f)
                if not isinstance(f, types.FunctionType) or id(f) in seen:
                    continue
                seen.add(id(f))
                for i, d in enumerate(list(f.__defaults__ or ()) + list((f.__kwdefaults__ or {}).values())):
                    if X.is_mutable(d):
                        out.append((X.class_key(klass), f'{name} default #{i}', d))
    return out


ARGSITES = arg_default_sites()
ARG_OF_OBJ = {id(d): i for i, (_, _, d) in enumerate(ARGSITES)}
ARG_CLASSES = {k for k, _, _ in ARGSITES}
ROOTS = [(s[0], s[1], s[3]) for s in SITES] + ARGSITES      # every process-start object an instance must not reach
STRUCT_PROPS = (xs.SubElementProperty, xs.ContainerProperty)
LIST_PROPS = (xs.SubElementListProperty, xs.ContainerListProperty)
TEXT_LIST_PROPS = (xs.SubElementTextListProperty, xs.NodeTextListProperty, xs.NodeTextQNameListProperty,
                   xs._AttributeListBase)  # noqa: SLF001


def direct_site_classes():
    out = []
    import inspect
    for key, cls in CLASSES.items():
        if any(id(p) in SITE_OF_PROP for _, p in X.class_props(cls)) or \
                any(X.class_key(k) in ARG_CLASSES for k in inspect.getmro(cls)):
            out.append(key)
    return out


def carrier_classes(direct):
    dset = {CLASSES[k] for k in direct}
    out = []
    for key, cls in CLASSES.items():
        if key in direct:
            continue
        for _, p in X.class_props(cls):
            vc = getattr(p, 'value_class', None)
            if isinstance(p, STRUCT_PROPS + LIST_PROPS) and vc is not None and \
                    (vc in dset or any(issubclass(d, vc) for d in dset)):
                out.append(key)
                break
    return out


def closure_sites(cls, depth=0, seen=None, acc=None):
    """global site indices of every defaulted property reachable from cls through declared value classes"""
    seen = seen if seen is not None else set()
    acc = acc if acc is not None else set()
    if cls in seen or depth > 5:
        return acc
    seen.add(cls)
    for _, p in X.class_props(cls):
        if id(p) in SITE_OF_PROP:
            acc.add(SITE_OF_PROP[id(p)])
        vc = getattr(p, 'value_class', None)
        if isinstance(p, STRUCT_PROPS + LIST_PROPS) and vc is not None:
            for c in [vc, *X._subclasses(vc)]:  # noqa: SLF001
                if X.class_key(c) in CLASSES:
                    closure_sites(c, depth + 1, seen, acc)
    return acc


def h(x):
    return hashlib.sha1(repr(x).encode()).hexdigest()[:10]


class Case:
    def __init__(self, spec):
        self.cls = CLASSES[spec['cls']]
        self.rng = random.Random(spec['seed'])
        self.gen = G.Gen(self.rng, max_depth=2, max_list=2, exotic=0.1)
        self.intern = X.Interner()
        self.site_ids = sorted(closure_sites(self.cls))
        self.local = {g: i for i, g in enumerate(self.site_ids)}
        self.defaults = [SITES[g][3] for g in self.site_ids] + [d for _, _, d in ARGSITES]
        self.insts = []
        self.origin = []          # op kind that created each instance
        self.ops = []
        self.trace = {'defaults': [X.tree_of(d, self.intern) for d in self.defaults],
                      'sites': [f'{SITES[g][0]}.{SITES[g][1]}' for g in self.site_ids]
                      + [f'{a[0]}.{a[1]}' for a in ARGSITES],
                      'ops': [], 'obs': [], 'shared': [], 'inst': [], 'dflt': [], 'fresh': [], 'origin': self.origin,
                      'notes': []}
        self.snapshot()

    # ---------------------------------------------------------------- observation
    def snapshot(self):
        toks, shared = X.observe(self.defaults, self.insts, self.intern)
        self.trace['obs'].append(toks)
        # sharing judged against ALL class defaults of the library, not only the ones of this class' closure
        _, shared_all = X.observe([r[2] for r in ROOTS], self.insts, X.Interner())
        sh = []
        for a, b in shared_all:
            a = ['d', f'{ROOTS[a[1]][0]}.{ROOTS[a[1]][1]}'] if a[0] == 'd' else ['i', a[1]]
            b = ['d', f'{ROOTS[b[1]][0]}.{ROOTS[b[1]][1]}'] if b[0] == 'd' else ['i', b[1]]
            sh.append([a, b])
        self.trace['shared'].append(sh)
        self.trace['inst'].append([h(X.tree_of(i, self.intern)) for i in self.insts])
        self.trace['dflt'].append([h(X.canon(r[2])) for r in ROOTS])
        self.trace['fresh'].append(h(X.canon(X.construct(self.cls))))

    # ---------------------------------------------------------------- descriptions for the model
    def x_of_value(self, v):
        """a nested value created by the operation itself: everything fresh"""
        if not X.is_mutable(v):
            return ['I', self.intern(v)]
        if X.is_struct(v):
            return ['N', self.x_new_fields(v)]
        return ['N', [self.x_of_value(x) if k == 'ref' else ['I', x] for k, x in X.children(v, self.intern)]]

    def x_new_fields(self, obj):
        """cls(): a member with a mutable class default is (a copy of) that default, the rest as constructed"""
        out = []
        for (name, p), raw in zip(X.class_props(type(obj)), X.raw_fields(obj)):
            g = SITE_OF_PROP.get(id(p))
            if id(raw) in ARG_OF_OBJ:                    # the constructor stored its default-argument object
                out.append(['A', len(self.site_ids) + ARG_OF_OBJ[id(raw)]])
            elif g is not None and raw is not None:
                out.append(['D', self.local[g]])
            else:
                out.append(self.x_of_value(raw))
        return out

    def x_parsed_fields(self, obj, node):
        """from_node(node): an ABSENT member with a mutable class default is the default (XML + declaration decide);
        present members are described from the parsed object"""
        out = []
        for (name, p), raw in zip(X.class_props(type(obj)), X.raw_fields(obj)):
            g = SITE_OF_PROP.get(id(p))
            qn = getattr(p, '_sub_element_name', None)
            if isinstance(p, STRUCT_PROPS) and qn is not None:
                sub = node.find(qn)
                if sub is None:
                    out.append(['D', self.local[g]] if g is not None else ['I', self.intern(raw)])
                elif X.is_struct(raw):
                    out.append(['N', self.x_parsed_fields(raw, sub)])
                else:
                    out.append(self.x_of_value(raw))
            elif isinstance(p, LIST_PROPS) and qn is not None and isinstance(raw, list):
                subs = node.findall(qn)
                if len(subs) == len(raw) and all(X.is_struct(e) for e in raw):
                    out.append(['N', [['N', self.x_parsed_fields(e, n)] for e, n in zip(raw, subs)]])
                else:
                    out.append(self.x_of_value(raw))
            else:
                out.append(self.x_of_value(raw))
        return out

    # ---------------------------------------------------------------- operations
    def add(self, inst):
        """register a new instance; reading every top-level property first makes the descriptors create their
        lazily allocated empty lists now (ExtensionNodeProperty.__get__), not in the middle of a later operation"""
        for name, _ in X.class_props(type(inst)):
            getattr(inst, name)
        self.insts.append(inst)

    def do_new(self):
        inst = X.construct(self.cls)
        self.add(inst)
        self.origin.append('new')
        return ['new', self.x_new_fields(inst)]

    def remove_defaulted(self, cls, node, p_remove):
        """drop sub-elements whose property has a mutable class default (recursively); returns #removed"""
        n = 0
        for _, p in X.class_props(cls):
            qn = getattr(p, '_sub_element_name', None)
            if qn is None or not isinstance(p, STRUCT_PROPS + LIST_PROPS):
                continue
            for sub in node.findall(qn):
                if isinstance(p, STRUCT_PROPS) and id(p) in SITE_OF_PROP and self.rng.random() < p_remove:
                    node.remove(sub)
                    n += 1
                    continue
                vc = p.value_class
                try:
                    if isinstance(p, (xs.ContainerProperty, xs.ContainerListProperty)):
                        t = sub.get(X.xs.QN_TYPE)
                        if t is not None:
                            from sdc11073.namespaces import text_to_qname
                            vc = p._cls_getter(text_to_qname(t, sub.nsmap))  # noqa: SLF001
                    else:
                        vc = vc.value_class_from_node(sub)
                except Exception:  # noqa: BLE001
                    continue
                n += self.remove_defaulted(vc, sub, p_remove)
        return n

    def do_parse(self, p_remove):
        for _ in range(6):
            try:
                tmpl = self.gen.instance(self.cls)
                node = etree.fromstring(etree.tostring(X.serialise(tmpl)))
            except Exception as ex:  # noqa: BLE001   mandatory member missing etc.: another template
                self.trace['notes'].append(f'template: {type(ex).__name__}')
                continue
            removed = self.remove_defaulted(self.cls, node, p_remove / 100.0)
            try:
                inst = X.parse(self.cls, node)
            except Exception as ex:  # noqa: BLE001   reader rejects this document (C05's business): another template
                self.trace['notes'].append(f'parse: {type(ex).__name__}')
                continue
            self.add(inst)
            self.origin.append('parse')
            return ['parse', self.x_parsed_fields(inst, node), removed]
        return ['skip']

    def do_copy(self, r):
        src = self.insts[r]
        if not hasattr(src, 'mk_copy'):
            return self.do_deepcopy(r)
        self.add(src.mk_copy())
        self.origin.append('mk_copy')
        return ['copy', r]

    def do_deepcopy(self, r):
        self.add(copy.deepcopy(self.insts[r]))
        self.origin.append('deepcopy')
        return ['deepcopy', r]

    def do_update(self, dst, src):
        a, b = self.insts[dst], self.insts[src]
        if dst == src or type(a) is not type(b) or not hasattr(a, 'update_from_other_container'):
            return ['skip']
        names = [n for n, _ in X.class_props(type(a))]
        for hname in ('DescriptorHandle', 'Handle'):      # the library refuses other handles: align them first
            if hname in names and getattr(a, hname) != getattr(b, hname):
                setattr(a, hname, getattr(b, hname))
                self.emit(['write', dst, [], names.index(hname), self.intern(getattr(b, hname))])
        # getattr(src, name) yields the IMPLIED value where src has none: dst receives it as an actual value
        ov = []
        for (name, p), raw in zip(X.class_props(type(b)), X.raw_fields(b)):
            seen = getattr(b, name)
            ov.append(self.intern(seen) if raw is None and seen is not None and not X.is_mutable(seen) else None)
        a.update_from_other_container(b)
        return ['update', dst, src, ov]

    def slots(self, obj, path, out, depth=0):
        """writable scalar members: (path, field index, owner, name, descriptor)"""
        if depth > 4:
            return
        if X.is_struct(obj):
            for k, ((name, p), raw) in enumerate(zip(X.class_props(type(obj)), X.raw_fields(obj))):
                if X.is_mutable(raw):
                    self.slots(raw, [*path, k], out, depth + 1)
                elif isinstance(p, (xs._AttributeBase, xs.NodeTextProperty)) and \
                        not isinstance(p, (xs._AttributeListBase, xs.CurrentTimestampAttributeProperty)):  # noqa: SLF001
                    out.append((path, k, obj, name, p))
        elif isinstance(obj, list):
            for k, e in enumerate(obj):
                if X.is_struct(e):
                    self.slots(e, [*path, k], out, depth + 1)

    def do_write(self, r, sel, nested_only):
        out = []
        self.slots(self.insts[r], [], out)
        if nested_only:
            out = [s for s in out if s[0]] or out
        for i in range(len(out)):
            path, k, owner, name, p = out[(sel + i) % len(out)]
            try:
                v = self.gen.value(type(owner), name, p, 9)
                setattr(owner, name, v)
            except Exception:  # noqa: BLE001  no generator for this member: take the next one
                continue
            return ['write', r, path, k, self.intern(v)]
        return ['skip']

    def lists(self, obj, path, out, depth=0):
        """list objects reachable from an instance: (path of field indices, list, owner, member name, descriptor)"""
        if depth > 4:
            return
        if X.is_struct(obj):
            for k, ((name, p), raw) in enumerate(zip(X.class_props(type(obj)), X.raw_fields(obj))):
                if isinstance(raw, list):
                    out.append(([*path, k], raw, obj, name, p))
                if X.is_mutable(raw):
                    self.lists(raw, [*path, k], out, depth + 1)
        elif isinstance(obj, list):
            for k, e in enumerate(obj):
                if X.is_struct(e):
                    self.lists(e, [*path, k], out, depth + 1)

    def do_mutate(self, r, sel, kind):
        """IN-PLACE list operation through instance r: append (an immutable, valid element) / pop / clear.
        Appending is restricted to lists of immutable elements (text / handle-ref / attribute lists): the model's
        MAppend stores an immutable value, and the library validates list elements when a member is re-assigned."""
        out = []
        self.lists(self.insts[r], [], out)
        if not out:
            return ['skip']
        if kind == 0:
            cand = [x for x in out if isinstance(x[4], TEXT_LIST_PROPS) and not any(X.is_mutable(e) for e in x[1])]
            for i in range(len(cand)):
                path, lst, owner, name, p = cand[(sel + i) % len(cand)]
                try:
                    vals = [v for v in self.gen.value(type(owner), name, p, 9) if not X.is_mutable(v)]
                except Exception:  # noqa: BLE001
                    vals = []
                vals = vals or list(lst[:1])
                if vals:
                    lst.append(vals[0])
                    return ['mutate', r, path, 'append', self.intern(vals[0])]
            kind = 1 + sel % 2
        nonempty = [x for x in out if x[1]]
        path, lst = (nonempty or out)[sel % len(nonempty or out)][:2]
        if kind == 1:
            if lst:
                lst.pop()
            return ['mutate', r, path, 'pop', 0]
        lst.clear()
        return ['mutate', r, path, 'clear', 0]

    def run(self, ops):
        for kind, a, b, c in ops:
            n = len(self.insts)
            if kind == 'new' or (n == 0 and kind != 'parse'):
                res = self.do_new()
            elif kind == 'parse':
                res = self.do_parse(a)
            elif kind == 'copy':
                res = self.do_copy(a % n)
            elif kind == 'deepcopy':
                res = self.do_deepcopy(a % n)
            elif kind == 'update':
                res = self.do_update(a % n, b % n)
            elif kind == 'mutate':
                res = self.do_mutate(a % n, b, c)
            else:
                res = self.do_write(a % n, b, c)
            self.emit(res)
        return self.trace

    def emit(self, res):
        self.trace['ops'].append(res)
        if res[0] != 'skip':
            self.snapshot()


if req.get('discover'):
    direct = direct_site_classes()
    print(json.dumps({'direct': direct, 'carriers': carrier_classes(direct),
                      'sites': [[s[0], s[1], type(s[2]).__name__, type(s[3]).__name__] for s in SITES],
                      'arg_sites': [[a[0], a[1], type(a[2]).__name__] for a in ARGSITES],
                      'n_classes': len(CLASSES)}))
else:
    traces = []
    for spec in req['cases']:
        try:
            traces.append(Case(spec).run(spec['ops']))
        except Exception as ex:  # noqa: BLE001
            import traceback
            traces.append({'crash': traceback.format_exc()[-1500:]})
    print(json.dumps({'traces': traces}))
