"""Translator: emits coq/Eventing/Gen_Consts.v from /repo (fail-closed).

Source facts translated:
  * sdc11073.xml_types.actions.Actions                  -> sdc_actions : list string (every member)
  * SubscriptionBase.MAX_NOTIFY_ERRORS                  -> MAX_NOTIFY_ERRORS
  * SubscriptionsManagerBase.DEFAULT_MAX_SUBSCR_DURATION -> DEFAULT_MAX_SUBSCR_DURATION_TICKS (1 tick = 1/8 s)
  * the grace period in _do_housekeeping (`now > s.unsubscribed_at + <c>`) -> HOUSEKEEPING_GRACE_TICKS
  * the number of digits in remaining_seconds (`round(..., <n>)`)         -> REMAINING_ROUND_DIGITS
The model (Eventing/Model.v) is written for 2 digits; any other value stops the translator.
"""
import ast
import inspect
import json
import sys
import textwrap
from fractions import Fraction

from sdc11073.provider import subscriptionmgr_base as smb
from sdc11073.xml_types.actions import Actions

TICKS_PER_S = 8


def die(msg):
    raise SystemExit('fail-closed: ' + msg)


def ticks(v, what):
    if isinstance(v, bool) or not isinstance(v, (int, float)):
        die(f'{what}={v!r} is not a number')
    fr = Fraction(v) * TICKS_PER_S
    if fr.denominator != 1:
        die(f'{what}={v!r} is not a multiple of 1/{TICKS_PER_S} s')
    return int(fr)


def coq_str(s):
    if not isinstance(s, str) or not s or any(not (32 < ord(c) < 127) or c == '"' for c in s):
        die(f'action URI {s!r} is empty or has characters outside printable non-blank ASCII')
    return '"' + s + '"'


def fn_ast(obj):
    return ast.parse(textwrap.dedent(inspect.getsource(obj)))


def housekeeping_grace():
    found = []
    for node in ast.walk(fn_ast(smb.SubscriptionsManagerBase._do_housekeeping)):
        # now > s.unsubscribed_at + <const>
        if (isinstance(node, ast.Compare) and len(node.ops) == 1 and isinstance(node.ops[0], ast.Gt)
                and isinstance(node.left, ast.Name) and node.left.id == 'now'):
            r = node.comparators[0]
            if (isinstance(r, ast.BinOp) and isinstance(r.op, ast.Add) and isinstance(r.left, ast.Attribute)
                    and r.left.attr == 'unsubscribed_at' and isinstance(r.right, ast.Constant)):
                found.append(r.right.value)
            else:
                die('_do_housekeeping: comparison with `now` is not `now > s.unsubscribed_at + <const>`')
    if len(found) != 1:
        die(f'_do_housekeeping: expected exactly one grace-period comparison, found {found}')
    return ticks(found[0], 'housekeeping grace period')


def round_digits():
    found = []
    for node in ast.walk(fn_ast(smb.SubscriptionBase.remaining_seconds.fget)):
        if isinstance(node, ast.Call) and isinstance(node.func, ast.Name) and node.func.id == 'round':
            if len(node.args) == 2 and isinstance(node.args[1], ast.Constant) and isinstance(node.args[1].value, int):
                found.append(node.args[1].value)
            else:
                die('remaining_seconds: round() is not called as round(<expr>, <int literal>)')
    if found != [2]:
        die(f'remaining_seconds: the model is written for round(<expr>, 2); found {found}')
    return 2


json.load(sys.stdin)
acts = [a.value for a in Actions]
if len(acts) != len(set(acts)) or not (1 <= len(acts) <= 500):
    die('Actions: duplicate values or implausible size')
max_err = smb.SubscriptionBase.MAX_NOTIFY_ERRORS
if isinstance(max_err, bool) or not isinstance(max_err, int) or not (-10 ** 6 <= max_err <= 10 ** 6):
    die(f'MAX_NOTIFY_ERRORS={max_err!r} is not a small int')
maxd = ticks(smb.SubscriptionsManagerBase.DEFAULT_MAX_SUBSCR_DURATION, 'DEFAULT_MAX_SUBSCR_DURATION')
grace = housekeeping_grace()
digits = round_digits()
lines = ';\n  '.join(coq_str(a) for a in acts)
text = f'''(* GENERATED on every run by harness/impl/gen_eventing_consts.py from
   src/sdc11073/xml_types/actions.py and src/sdc11073/provider/subscriptionmgr_base.py -- do not edit.
   Durations are in ticks of 1/{TICKS_PER_S} s. *)
From Coq Require Import ZArith List String.
Import ListNotations.
Open Scope string_scope.
Definition sdc_actions : list string := [
  {lines}
].
Open Scope Z_scope.
Definition TICKS_PER_S : Z := {TICKS_PER_S}.
Definition MAX_NOTIFY_ERRORS : Z := ({max_err}).
Definition DEFAULT_MAX_SUBSCR_DURATION_TICKS : Z := ({maxd}).
Definition HOUSEKEEPING_GRACE_TICKS : Z := ({grace}).
Definition REMAINING_ROUND_DIGITS : Z := {digits}.
'''
print(json.dumps({'rel': 'Eventing/Gen_Consts.v', 'text': text, 'actions': acts, 'max_err': max_err,
                  'maxd_ticks': maxd, 'grace_ticks': grace}))
