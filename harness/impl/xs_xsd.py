"""A small index of the bundled XSD files (src/sdc11073/xsd/*.xsd, located through namespaces.PrefixesEnum):
complex types flattened over their extension chain (attributes with use/type, child elements with
minOccurs/maxOccurs/type in sequence order), simple types resolved to a builtin base with facets.
Used by the C05 generator (to draw values from the SCHEMA value space) and by the static comparison of the
class declarations with the schema.  Not a translator; nothing from the library under test is executed here
except the location table of the schema files."""
from __future__ import annotations

from dataclasses import dataclass, field

from lxml import etree

from sdc11073.namespaces import PrefixesEnum

XS = 'http://www.w3.org/2001/XMLSchema'
X = '{' + XS + '}'


@dataclass
class Simple:
    base: str = 'string'            # builtin local name
    min_length: int = 0
    enum: list | None = None
    min_incl: str | None = None
    max_incl: str | None = None
    item: 'Simple | None' = None    # list type
    members: list | None = None     # union


@dataclass
class Elem:
    qname: str                      # Clark notation
    type: 'tuple | CType | None'    # (ns, name) | anonymous CType | None (anyType)
    min: int = 1
    max: int = 1                    # -1 unbounded
    in_choice: bool = False
    implied: str | None = None      # default= / fixed= or the documented "implied value SHALL be ..." (text form)


@dataclass
class CType:
    name: tuple | None
    abstract: bool = False
    base: tuple | None = None
    attrs: dict = field(default_factory=dict)      # local or Clark name -> (type ref | Simple | None, required)
    elems: list = field(default_factory=list)
    text: object = None                            # simple content type ref
    any_elem: bool = False
    any_attr: bool = False
    mixed: bool = False
    adefault: dict = field(default_factory=dict)   # attribute name -> default= or documented implied value (text form)


def documented_default(node) -> str | None:
    """the value an absent attribute / element stands for: default="..." of the declaration, else the sentence
    `The implied value ... SHALL be "..."` of its xsd:documentation (BICEPS documents implied values that way)"""
    import re
    if node.get('default') is not None:
        return node.get('default')
    for doc in node.findall(X + 'annotation/' + X + 'documentation'):
        m = re.search(r'implied value[^"<>]{0,80}?SHALL be "([^"]*)"', ' '.join((doc.text or '').split()), re.I)
        if m:
            return m.group(1)
    return None


class Index:
    def __init__(self):
        self.ctypes: dict[tuple, CType] = {}
        self.stypes: dict[tuple, etree._Element] = {}  # noqa: SLF001
        self.elements: dict[tuple, Elem] = {}
        self.attr_groups: dict[tuple, etree._Element] = {}  # noqa: SLF001
        self.groups = {}
        self.gattrs: dict[tuple, etree._Element] = {}  # noqa: SLF001
        self._raw_ct: dict[tuple, tuple] = {}
        self._flat: dict[int, CType] = {}
        roots = []
        for e in PrefixesEnum:
            f = e.value.local_schema_file
            if f is None:
                continue
            root = etree.parse(str(f)).getroot()
            tns = root.get('targetNamespace')
            qualified = root.get('elementFormDefault') == 'qualified'
            roots.append((root, tns, qualified))
            for ch in root:
                if not isinstance(ch.tag, str):
                    continue
                k = (tns, ch.get('name'))
                if ch.tag == X + 'complexType':
                    self._raw_ct[k] = (ch, tns, qualified)
                elif ch.tag == X + 'simpleType':
                    self.stypes[k] = ch
                elif ch.tag == X + 'attributeGroup':
                    self.attr_groups[k] = (ch, tns)
                elif ch.tag == X + 'attribute':
                    self.gattrs[k] = (ch, tns)
                elif ch.tag == X + 'group':
                    self.groups[k] = (ch, tns, qualified)
        for root, tns, qualified in roots:
            for ch in root.findall(X + 'element'):
                self.elements[(tns, ch.get('name'))] = self._elem(ch, tns, True, global_=True)

    # ------------------------------------------------------------------ helpers
    @staticmethod
    def _ref(node, text):
        """prefix:name -> (ns, name)"""
        if text is None:
            return None
        if ':' in text:
            p, n = text.split(':', 1)
            return node.nsmap.get(p), n
        return node.nsmap.get(None), text

    def _elem(self, node, tns, qualified, global_=False, in_choice=False):
        if node.get('ref') is not None:
            ns, n = self._ref(node, node.get('ref'))
            qn, typ = f'{{{ns}}}{n}', ('@ref', ns, n)
        else:
            form_q = global_ or qualified or node.get('form') == 'qualified'
            qn = f'{{{tns}}}{node.get("name")}' if form_q and tns else node.get('name')
            typ = self._ref(node, node.get('type'))
            anon = node.find(X + 'complexType')
            if anon is not None:
                typ = self._ctype(anon, tns, qualified, None)
            elif node.find(X + 'simpleType') is not None:
                typ = ('@simple', node.find(X + 'simpleType'))
        mn = int(node.get('minOccurs', '1'))
        mx = node.get('maxOccurs', '1')
        return Elem(qn, typ, mn, -1 if mx == 'unbounded' else int(mx), in_choice, documented_default(node))

    def _particles(self, node, tns, qualified, ct, opt=False, in_choice=False):
        for ch in node:
            if not isinstance(ch.tag, str):
                continue
            t = ch.tag[len(X):]
            if t == 'element':
                e = self._elem(ch, tns, qualified, in_choice=in_choice)
                if opt:
                    e.min = 0
                ct.elems.append(e)
            elif t in ('sequence', 'choice', 'all'):
                o = opt or ch.get('minOccurs') == '0' or t == 'choice'
                n0 = len(ct.elems)
                self._particles(ch, tns, qualified, ct, o, in_choice or t == 'choice')
                if ch.get('maxOccurs') == 'unbounded':
                    for e in ct.elems[n0:]:
                        e.max = -1
            elif t == 'any':
                ct.any_elem = True
            elif t == 'group':
                g, gtns, gq = self.groups[self._ref(ch, ch.get('ref'))]
                self._particles(g, gtns, gq, ct, opt or ch.get('minOccurs') == '0', in_choice)

    def _attrs(self, node, tns, ct):
        for ch in node:
            if not isinstance(ch.tag, str):
                continue
            t = ch.tag[len(X):]
            if t == 'attribute':
                if ch.get('ref') is not None:
                    ns, n = self._ref(ch, ch.get('ref'))
                    g = self.gattrs.get((ns, n))
                    typ = self._ref(g[0], g[0].get('type')) if g is not None else None
                    ct.attrs[f'{{{ns}}}{n}'] = (typ, ch.get('use') == 'required')
                    dv = documented_default(ch) or (documented_default(g[0]) if g is not None else None)
                    if dv is not None:
                        ct.adefault[f'{{{ns}}}{n}'] = dv
                else:
                    typ = self._ref(ch, ch.get('type'))
                    if ch.find(X + 'simpleType') is not None:
                        typ = ('@simple', ch.find(X + 'simpleType'))
                    ct.attrs[ch.get('name')] = (typ, ch.get('use') == 'required')
                    if documented_default(ch) is not None:
                        ct.adefault[ch.get('name')] = documented_default(ch)
            elif t == 'attributeGroup':
                g, gtns = self.attr_groups[self._ref(ch, ch.get('ref'))]
                self._attrs(g, gtns, ct)
            elif t == 'anyAttribute':
                ct.any_attr = True

    def _ctype(self, node, tns, qualified, name):
        ct = CType(name, abstract=node.get('abstract') == 'true', mixed=node.get('mixed') == 'true')
        body = node
        cc = node.find(X + 'complexContent')
        sc = node.find(X + 'simpleContent')
        if cc is not None or sc is not None:
            inner = (cc if cc is not None else sc)
            ext = inner.find(X + 'extension')
            if ext is None:
                ext = inner.find(X + 'restriction')
            ct.base = self._ref(ext, ext.get('base'))
            body = ext
            if sc is not None:
                ct.text = ct.base
        self._particles(body, tns, qualified, ct)
        self._attrs(body, tns, ct)
        return ct

    # ------------------------------------------------------------------ public
    def ctype(self, key) -> CType | None:
        """named complex type, flattened over its base types (base particles first)"""
        if key not in self.ctypes:
            raw = self._raw_ct.get(key)
            if raw is None:
                return None
            ct = self._ctype(raw[0], raw[1], raw[2], key)
            self.ctypes[key] = ct        # (cycle guard)
            self.ctypes[key] = self.flatten(ct)
        return self.ctypes[key]

    def flatten(self, ct: CType) -> CType:
        if ct.base is None or ct.base[0] == XS:
            if ct.base is not None and ct.text is None and ct.base[1] != 'anyType':
                ct.text = ct.base
            return ct
        b = self.ctype(ct.base)
        if b is None:                       # simple type base (simpleContent)
            ct.text = ct.base
            return ct
        res = CType(ct.name, ct.abstract, ct.base, dict(b.attrs), list(b.elems), ct.text or b.text,
                    ct.any_elem or b.any_elem, ct.any_attr or b.any_attr, ct.mixed or b.mixed)
        res.attrs.update(ct.attrs)
        res.elems.extend(ct.elems)
        res.adefault = dict(b.adefault)
        res.adefault.update(ct.adefault)
        return res

    def elem_type(self, e: Elem):
        """CType | Simple | None for an element particle"""
        t = e.type
        if isinstance(t, CType):
            k = id(t)
            if k not in self._flat:
                self._flat[k] = self.flatten(t)
            return self._flat[k]
        if t is None:
            return None
        if t[0] == '@ref':
            g = self.elements.get((t[1], t[2]))
            return self.elem_type(g) if g is not None else None
        if t[0] == '@simple':
            return self.simple(t)
        ct = self.ctype(t)
        return ct if ct is not None else self.simple(t)

    def simple(self, ref, depth=0) -> Simple | None:
        """resolve a simple type reference / anonymous simpleType to builtin + facets"""
        if ref is None or depth > 8:
            return None
        if ref[0] == '@simple':
            node = ref[1]
        elif ref[0] == XS:
            return Simple(ref[1])
        else:
            node = self.stypes.get(ref)
            if node is None:
                ct = self.ctype(ref)
                return self.simple(ct.text, depth + 1) if ct is not None and ct.text is not None else None
        r = node.find(X + 'restriction')
        if r is not None:
            base = self._ref(r, r.get('base'))
            inner = r.find(X + 'simpleType')
            s = self.simple(('@simple', inner) if inner is not None else base, depth + 1) or Simple()
            s = Simple(s.base, s.min_length, s.enum, s.min_incl, s.max_incl, s.item, s.members)
            for f in r:
                if not isinstance(f.tag, str):
                    continue
                t = f.tag[len(X):]
                if t == 'minLength':
                    s.min_length = max(s.min_length, int(f.get('value')))
                elif t == 'enumeration':
                    s.enum = (s.enum or []) + [f.get('value')]
                elif t == 'minInclusive':
                    s.min_incl = f.get('value')
                elif t == 'maxInclusive':
                    s.max_incl = f.get('value')
            return s
        lst = node.find(X + 'list')
        if lst is not None:
            inner = lst.find(X + 'simpleType')
            it = self.simple(('@simple', inner) if inner is not None else self._ref(lst, lst.get('itemType')), depth + 1)
            return Simple('list', item=it or Simple())
        un = node.find(X + 'union')
        if un is not None:
            mem = [self.simple(self._ref(un, m), depth + 1) for m in (un.get('memberTypes') or '').split()]
            mem += [self.simple(('@simple', m), depth + 1) for m in un.findall(X + 'simpleType')]
            return Simple('union', members=[m for m in mem if m is not None])
        return Simple()

    def for_qname(self, qn):
        """complex type for a NODETYPE: a named type, else the type of the global element of that name"""
        if qn is None or qn.namespace is None:
            return None, None
        key = (qn.namespace, qn.localname)
        ct = self.ctype(key)
        if ct is not None:
            return ct, 'type'
        g = self.elements.get(key)
        if g is not None:
            t = self.elem_type(g)
            return (t if isinstance(t, CType) else None), 'element'
        return None, None
