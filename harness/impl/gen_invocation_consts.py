"""Translator: emits coq/Invocation/Gen_Consts.v from /repo's provider/sco.py, provider/providerimpl.py and
consumer/operations.py (fail-closed).

Values are read from live objects of the real classes (queue length, deque length, non-final states), from
probes of the real functions with stub collaborators (state answered by direct processing; which response
states complete a call at once and whether such a completion keeps the parts received before), and from the
syntax tree where behaviour cannot show it (the id counter is incremented under its lock)."""
import ast
import inspect
import json
import logging
import sys
import textwrap

logging.disable(logging.CRITICAL)          # the probes make the code log the exceptions they provoke

import c09_lib
from sdc11073.consumer import operations as cons_ops
from sdc11073.provider import providerimpl, sco
from sdc11073.provider.operations import ExecuteResult
from sdc11073.xml_types import msg_types

json.load(sys.stdin)
IS = msg_types.InvocationState
if [s.value for s in IS] != ['Wait', 'Start', 'Cnclld', 'CnclldMan', 'Fin', 'FinMod', 'Fail']:
    raise SystemExit(f'fail-closed: InvocationState members changed: {[s.value for s in IS]}')
if [e.value for e in msg_types.InvocationError] != ['Unspec', 'Unkn', 'Inv', 'Oth']:
    raise SystemExit('fail-closed: InvocationError members changed')


def coq_state(s):
    if not isinstance(s, IS):
        raise SystemExit(f'fail-closed: {s!r} is not an InvocationState')
    return s.value


# ---- SCO worker queue length
worker = sco._OperationsWorker(None, None, None, 'c09')          # a Thread object that is never started
q = getattr(worker, '_operations_queue', None)
if q is None or not isinstance(q.maxsize, int) or not (0 < q.maxsize <= 5000):
    raise SystemExit('fail-closed: _OperationsWorker._operations_queue is not a bounded queue.Queue')
src = inspect.getsource(sco._OperationsWorker.enqueue_operation)
if '_operations_queue.put(' not in src or 'timeout' not in src:
    raise SystemExit('fail-closed: enqueue_operation does not put with a timeout')
queue_cap = q.maxsize


# ---- direct processing: state of the response / of the report as a function of the handler's outcome
class _Rec:
    def __init__(self):
        self.calls = []

    def notify_operation(self, operation, transaction_id, invocation_state, mdib_version_group,
                         operation_target=None, error=None, error_message=None):
        self.calls.append((transaction_id, invocation_state, operation_target, error, error_message))


class _DM:
    msg_types = msg_types


class _Mdib:
    mdib_version_group = None
    data_model = _DM


class _Op:
    handle = 'op'
    delayed_processing = False

    def __init__(self, outcome):
        self.outcome = outcome

    def execute_operation(self, request, operation_request):
        if self.outcome is None:
            raise ValueError('c09')
        return ExecuteResult('target', self.outcome)


rec = _Rec()
registry = sco.ScoOperationsRegistry(rec, None, _Mdib(), None, 'c09')
table = []
for st in IS:
    rec.calls.clear()
    answered = registry.handle_operation_request(_Op(st), None, None, 5)
    if len(rec.calls) != 1 or rec.calls[0][0] != 5 or rec.calls[0][1] is not st or rec.calls[0][2] != 'target' \
            or rec.calls[0][3] is not None:
        raise SystemExit(f'fail-closed: direct processing does not report the handler state once: {rec.calls}')
    table.append((coq_state(st), coq_state(answered)))
rec.calls.clear()
raise_resp = registry.handle_operation_request(_Op(None), None, None, 6)
if len(rec.calls) != 1 or rec.calls[0][1] is not IS.FAILED or rec.calls[0][3] is not msg_types.InvocationError.OTHER \
        or not rec.calls[0][4]:
    raise SystemExit(f'fail-closed: direct processing of a raising handler does not report Fail/Oth/message: {rec.calls}')

# ---- queued processing: a request is enqueued and answered Wait; when the queue is full (the put timeout has elapsed)
#      it is refused with queue.Full -- or (a defect) answered Wait although nothing was enqueued
import queue as _queue  # noqa: E402


class _QOp(_Op):
    delayed_processing = True


probe_worker = sco._OperationsWorker(registry, rec, _Mdib(), 'c09')       # never started
pq = probe_worker._operations_queue


def _put(item, block=True, timeout=None):
    return _queue.Queue.put(pq, item, block=False) if timeout is not None else _queue.Queue.put(pq, item, block, timeout)


pq.put = _put
registry._worker = probe_worker
rec.calls.clear()
if registry.handle_operation_request(_QOp(IS.FINISHED), None, None, 7) is not IS.WAIT or pq.qsize() != 1 or rec.calls:
    raise SystemExit('fail-closed: queued processing does not enqueue the operation and answer Wait')
while pq.qsize() < pq.maxsize:
    _queue.Queue.put(pq, 'filler', block=False)
try:
    full_answer = registry.handle_operation_request(_QOp(IS.FINISHED), None, None, 8)
    if full_answer is not IS.WAIT or pq.qsize() != pq.maxsize or rec.calls:
        raise SystemExit(f'fail-closed: a full queue is neither refused with queue.Full nor answered Wait: {full_answer}')
    full_queue_loses_wait = True
except _queue.Full:
    full_queue_loses_wait = False
registry._worker = None

# ---- consumer
msgs = c09_lib.Messages()
drv = c09_lib.ManagerDriver(msgs)
dq = getattr(drv.mgr, '_last_operation_invoked_reports', None)
if dq is None or not isinstance(dq.maxlen, int) or not (0 < dq.maxlen <= 5000):
    raise SystemExit('fail-closed: _last_operation_invoked_reports is not a bounded deque')
recent_cap = dq.maxlen
nonfinal = [coq_state(s) for s in drv.mgr.nonFinalOperationStates]
completing, keeps = [], set()
for code, name in enumerate(c09_lib.STATES):
    d = c09_lib.ManagerDriver(msgs)
    d.run([['rep', [[1, 0, 77]]], ['resp', 1, code]])       # a Wait part arrives, then the response
    ob = d.observe()
    if ob['errors']:
        raise SystemExit(f'fail-closed: probe of call_operation failed: {ob["errors"]}')
    if ob['done']:
        if ob['done'][0][:4] != [1, code, code, 1]:
            raise SystemExit(f'fail-closed: unexpected completion {ob["done"]}')
        completing.append(name)
        keeps.add(ob['done'][0][4:] == [77])
    elif ob['pend'] != [[1, code, 77]]:
        raise SystemExit(f'fail-closed: call neither completed nor registered: {ob}')
if len(keeps) > 1:
    raise SystemExit('fail-closed: completing responses treat early parts inconsistently')
keeps_early = bool(keeps and keeps.pop())

# ---- lock discipline of the consumer: every access of call_operation / on_operation_invoked_report to the buffer of
#      recent parts and to the table of pending transactions happens while the calling thread holds _transactions_lock
#      (that is what makes one model step = one critical section)
n_acc, unlocked_acc, probe_ob = c09_lib.lock_discipline_probe(msgs)
if probe_ob['errors'] or n_acc < 10:
    raise SystemExit(f'fail-closed: lock discipline probe did not run: {probe_ob["errors"]}, {n_acc} accesses')
state_under_lock = not unlocked_acc


# ---- the transaction id is incremented and read under the lock
def txid_locked() -> bool:
    tree = ast.parse(textwrap.dedent(inspect.getsource(providerimpl.SdcProvider.generate_transaction_id)))
    fn = tree.body[0]
    body = [n for n in fn.body if not (isinstance(n, ast.Expr) and isinstance(n.value, ast.Constant))]
    if len(body) != 1 or not isinstance(body[0], ast.With) or len(body[0].items) != 1:
        return False
    ctx = body[0].items[0].context_expr
    if not (isinstance(ctx, ast.Attribute) and ctx.attr == '_transaction_id_lock'):
        return False
    inner = body[0].body
    ok_inc = any(isinstance(n, ast.AugAssign) and isinstance(n.target, ast.Attribute) and n.target.attr == '_transaction_id'
                 and isinstance(n.op, ast.Add) and isinstance(n.value, ast.Constant) and n.value.value == 1 for n in inner)
    ok_ret = any(isinstance(n, ast.Return) and isinstance(n.value, ast.Attribute) and n.value.attr == '_transaction_id'
                 for n in inner)
    init_src = inspect.getsource(providerimpl.SdcProvider.__init__)
    return ok_inc and ok_ret and '_transaction_id_lock = threading.Lock()' in init_src


def restart_makes_new_manager() -> bool:
    """SdcConsumer.start_all (called again by restart()) assigns a new OperationsManager unconditionally"""
    from sdc11073.consumer import consumerimpl
    tree = ast.parse(textwrap.dedent(inspect.getsource(consumerimpl.SdcConsumer.start_all)))
    fn = tree.body[0]

    def assigns(node):
        return (isinstance(node, ast.Assign) and len(node.targets) == 1 and isinstance(node.targets[0], ast.Attribute)
                and node.targets[0].attr == 'operations_manager' and isinstance(node.value, ast.Call))
    top = [n for n in fn.body if assigns(n)]
    everywhere = [n for n in ast.walk(fn) if assigns(n)]
    if len(everywhere) != 1:
        raise SystemExit(f'fail-closed: start_all assigns operations_manager {len(everywhere)} times')
    restart_src = inspect.getsource(consumerimpl.SdcConsumer.restart)
    if 'self.start_all(' not in restart_src:
        raise SystemExit('fail-closed: restart() does not call start_all')
    return len(top) == 1


def lst(xs):
    return '[' + '; '.join(xs) + ']'


text = f'''(* GENERATED on every run by harness/impl/gen_invocation_consts.py from
   src/sdc11073/provider/sco.py, provider/providerimpl.py, consumer/operations.py -- do not edit. *)
From Coq Require Import List ZArith Bool.
From SDC Require Import Invocation.Model.
Import ListNotations.
Definition sco_queue_cap : nat := {queue_cap}%nat.
Definition recent_cap : nat := {recent_cap}%nat.
Definition direct_resp_table : list (istate * istate) :=
  {lst(f'({a}, {b})' for a, b in table)}.
Definition direct_raise_resp : istate := {coq_state(raise_resp)}.
Definition consumer_completing : list istate := {lst(completing)}.
Definition consumer_nonfinal : list istate := {lst(nonfinal)}.
Definition consumer_keeps_early_parts : bool := {'true' if keeps_early else 'false'}.
Definition txid_under_lock : bool := {'true' if txid_locked() else 'false'}.
Definition consumer_state_under_lock : bool := {'true' if state_under_lock else 'false'}.
Definition sco_full_queue_loses_wait : bool := {'true' if full_queue_loses_wait else 'false'}.
Definition consumer_restart_fresh_manager : bool := {'true' if restart_makes_new_manager() else 'false'}.
'''
print(json.dumps({'rel': 'Invocation/Gen_Consts.v', 'text': text, 'queue_cap': queue_cap, 'recent_cap': recent_cap,
                  'direct_table': table, 'completing': completing, 'nonfinal': nonfinal, 'keeps_early': keeps_early,
                  'state_under_lock': state_under_lock, 'full_queue_loses_wait': full_queue_loses_wait, 'unlocked_accesses': unlocked_acc, 'probe_accesses': n_acc}))
