"""Helpers shared by c09_impl.py and gen_invocation_consts.py: real SetResponse / OperationInvokedReport
messages (built with the real message factory, serialised, parsed back with the real message reader) and
a driver for the real OperationsManager."""
from __future__ import annotations

import logging

import sdc11073.definitions_sdc  # noqa: F401  registers the protocol
from sdc11073.consumer import operations as cons_ops
from sdc11073.definitions_sdc import SdcV1Definitions
from sdc11073.pysoap.msgfactory import MessageFactory
from sdc11073.pysoap.msgreader import MessageReader
from sdc11073.xml_types import msg_types, pm_types
from sdc11073.xml_types.addressing_types import HeaderInformationBlock

STATES = ['Wait', 'Start', 'Cnclld', 'CnclldMan', 'Fin', 'FinMod', 'Fail']          # st_code order of the model
ERRS = [None, 'Unspec', 'Unkn', 'Inv', 'Oth']                                        # err_code order
COQ_STATE = {s: s for s in STATES}


def state_of(code: int):
    return msg_types.InvocationState(STATES[code])


def code_of(state) -> int:
    return STATES.index(state.value)


def err_code(err) -> int:
    return ERRS.index(None if err is None else err.value)


class CountingFuture(cons_ops.Future):
    """concurrent.futures.Future that counts set_result calls (a second call raises InvalidStateError)"""

    created: list = []
    order: list = []           # futures in the order of their (first) set_result call

    def __init__(self):
        super().__init__()
        self.n_set = 0
        self.errors = []
        CountingFuture.created.append(self)

    def set_result(self, result):
        self.n_set += 1
        CountingFuture.order.append(self)
        try:
            super().set_result(result)
        except Exception as ex:  # noqa: BLE001
            self.errors.append(type(ex).__name__)
            raise


class Messages:
    """real messages, round-tripped through serialisation and the real reader"""

    def __init__(self):
        lg = logging.getLogger('c09')
        self.factory = MessageFactory(SdcV1Definitions, None, lg, validate=True)
        self.reader = MessageReader(SdcV1Definitions, None, lg, validate=True)
        self.n = 0

    def _roundtrip(self, payload):
        inf = HeaderInformationBlock(action=payload.action, addr_to='urn:c09')
        created = self.factory.mk_soap_message(inf, payload=payload)
        raw = created.serialize()
        return self.reader.read_received_message(raw), created

    def response(self, tid: int, state_code: int):
        resp = msg_types.SetStringResponse()
        resp.InvocationInfo.TransactionId = tid
        resp.InvocationInfo.InvocationState = state_of(state_code)
        resp.MdibVersion = 1
        resp.SequenceId = 'urn:uuid:00000000-0000-0000-0000-000000000001'
        return self._roundtrip(resp)[0]

    def report(self, parts):
        """parts: list of (tid, state_code, tag) -> received OperationInvokedReport with that many ReportParts;
        the tag travels in OperationTarget"""
        rep = msg_types.OperationInvokedReport()
        rep.MdibVersion = 1
        rep.SequenceId = 'urn:uuid:00000000-0000-0000-0000-000000000001'
        for tid, st, tag in parts:
            part = rep.add_report_part()
            part.InvocationInfo.TransactionId = tid
            part.InvocationInfo.InvocationState = state_of(st)
            part.InvocationSource = pm_types.InstanceIdentifier('urn:c09', extension_string='x')
            part.OperationHandleRef = 'op'
            part.OperationTarget = f't{tag}'
        return self._roundtrip(rep)[0]

    def request(self):
        req = msg_types.SetString()
        req.OperationHandleRef = 'op'
        req.RequestedStringValue = 'x'
        return self._roundtrip(req)[1]


class StubServiceClient:
    """stands in for HostedServiceClient: post_message runs a callback (reports that arrive while the request
    is under way) and then returns the response"""

    def __init__(self):
        self.on_post = None
        self.response = None
        self.posted = 0

    def post_message(self, created_message, msg=None, request_manipulator=None, validate=True):
        self.posted += 1
        if self.on_post:
            self.on_post()
        return self.response


def part_tag(part) -> int:
    return int(part.OperationTarget[1:])


class ManagerDriver:
    """drives one real OperationsManager with an event list
       ['resp', id, st] | ['rep', [[id, st, tag], ...]]  (one report message, several parts)"""

    def __init__(self, msgs: Messages):
        cons_ops.Future = CountingFuture          # the name call_operation instantiates
        CountingFuture.created = []
        CountingFuture.order = []
        self.msgs = msgs
        self.mgr = cons_ops.OperationsManager(msgs.reader, 'c09')
        self.client = StubServiceClient()
        self.request = msgs.request()
        self.calls = []            # (id, future) in call order; strong references (the manager keeps weak ones)
        self.errors = []

    def run(self, events):
        """reports that precede a response are delivered from inside that call's post (they arrive while the
        request is under way); reports after the last response are delivered directly"""
        pending = []
        for ev in events:
            if ev[0] == 'rep':
                pending.append(ev)
                continue
            batch, pending = pending, []

            def deliver(batch=batch):
                for rep in batch:
                    self._report(rep[1])
            self.client.on_post = deliver
            self.client.response = self.msgs.response(ev[1], ev[2])
            try:
                fut = self.mgr.call_operation(self.client, self.request)
                self.calls.append((ev[1], fut))
            except Exception as ex:  # noqa: BLE001
                self.errors.append(['call_operation', type(ex).__name__])
        for rep in pending:
            self._report(rep[1])

    def _report(self, parts):
        try:
            self.mgr.on_operation_invoked_report(self.msgs.report([tuple(p) for p in parts]))
        except Exception as ex:  # noqa: BLE001
            self.errors.append(['on_operation_invoked_report', type(ex).__name__])

    def observe(self):
        """(completions in completion order is not observable from outside; we report per call, in call order:
        [id, result state, response state, from_resp, tags...] for completed calls), pending, recent"""
        done = []
        ids = {id(fut): tid for tid, fut in self.calls}
        for fut in CountingFuture.order:
            tid = ids.get(id(fut), -1)
            if fut.done():
                r = fut.result(timeout=0)
                from_resp = 1 if r.InvocationInfo is r.set_response.InvocationInfo else 0
                done.append([tid, code_of(r.InvocationInfo.InvocationState),
                             code_of(r.set_response.InvocationInfo.InvocationState), from_resp]
                            + [part_tag(p) for p in r.report_parts])
        pend = [[tid, code_of(od.set_response.InvocationInfo.InvocationState)] + [part_tag(p) for p in od.report_parts]
                for tid, od in self.mgr._transactions.items()]
        recent = [part_tag(p) for p in self.mgr._last_operation_invoked_reports]
        nset = [[tid, fut.n_set] for tid, fut in self.calls]
        return {'done': done, 'pend': pend, 'recent': recent, 'n_set': nset, 'errors': self.errors}


# ----------------------------------------------------------------------------- shared state of the manager, hooked
import threading  # noqa: E402
from collections import deque  # noqa: E402


class HookedLock:
    """stands in for OperationsManager._transactions_lock; knows its owner; `hook(kind)` runs before every
    acquire (the scheduler may only let the thread continue when the lock is free) and after every release"""

    def __init__(self, hook=None):
        self.owner = None
        self.hook = hook
        self.acquisitions = 0

    def free(self):
        return self.owner is None

    def acquire(self, blocking=True, timeout=-1):  # noqa: ARG002
        if self.hook:
            self.hook('acquire')
        if self.owner is not None:
            raise RuntimeError('HookedLock: acquired while held (no scheduler, or the scheduler let a thread in)')
        self.owner = threading.get_ident()
        self.acquisitions += 1
        if self.hook:
            self.hook('acquired')
        return True

    def release(self):
        self.owner = None
        if self.hook:
            self.hook('release')

    def __enter__(self):
        self.acquire()
        return self

    def __exit__(self, *a):
        self.release()

    def held_by_me(self):
        return self.owner == threading.get_ident()


class HookedDeque(deque):
    """stands in for _last_operation_invoked_reports; `hook(kind)` runs before every access"""

    hook = None

    def append(self, item):
        if self.hook:
            self.hook('buffer.append')
        super().append(item)

    def appendleft(self, item):
        if self.hook:
            self.hook('buffer.appendleft')
        super().appendleft(item)

    def extend(self, items):
        items = list(items)
        if self.hook:
            self.hook('buffer.extend')
        super().extend(items)

    def extendleft(self, items):
        items = list(items)
        if self.hook:
            self.hook('buffer.extendleft')
        super().extendleft(items)

    def __iter__(self):
        if self.hook:
            self.hook('buffer.iter')
        return super().__iter__()


class HookedDict(dict):
    """stands in for _transactions"""

    hook = None

    def __contains__(self, k):
        if self.hook:
            self.hook('transactions.contains')
        return super().__contains__(k)

    def __getitem__(self, k):
        if self.hook:
            self.hook('transactions.get')
        return super().__getitem__(k)

    def __setitem__(self, k, v):
        if self.hook:
            self.hook('transactions.set')
        super().__setitem__(k, v)

    def pop(self, *a):
        if self.hook:
            self.hook('transactions.pop')
        return super().pop(*a)

    def get(self, *a):
        if self.hook:
            self.hook('transactions.get')
        return super().get(*a)


def instrument(mgr, hook):
    """replace lock, buffer and table of a fresh OperationsManager by hooked ones; returns the lock"""
    lock = HookedLock(hook)
    old = mgr._last_operation_invoked_reports
    if not isinstance(old, deque) or len(old) or len(mgr._transactions):
        raise SystemExit('fail-closed: OperationsManager state is not an empty deque + empty dict')
    buf = HookedDeque(maxlen=old.maxlen)
    buf.hook = hook
    tab = HookedDict()
    tab.hook = hook
    if not hasattr(mgr, '_transactions_lock'):
        raise SystemExit('fail-closed: OperationsManager has no _transactions_lock')
    mgr._transactions_lock = lock
    mgr._last_operation_invoked_reports = buf
    mgr._transactions = tab
    return lock


def lock_discipline_probe(msgs):
    """single-threaded: every access to the buffer and to the table of pending transactions made by call_operation
    / on_operation_invoked_report, with the fact whether the calling thread holds the lock -> (accesses, unlocked)"""
    d = ManagerDriver(msgs)
    seen = {'accesses': 0, 'unlocked': []}
    lock_box = []

    def hook(kind):
        if kind in ('acquire', 'acquired', 'release'):
            return
        seen['accesses'] += 1
        if not lock_box[0].held_by_me():
            seen['unlocked'].append(kind)
    lock_box.append(instrument(d.mgr, hook))
    d.run([['rep', [[1, 0, 0]]], ['resp', 1, 0], ['rep', [[1, 1, 1], [9, 4, 2]]], ['rep', [[1, 4, 3]]],
           ['rep', [[3, 4, 4]]], ['resp', 3, 4], ['rep', [[2, 6, 5]]], ['resp', 2, 6], ['resp', 4, 6], ['rep', [[7, 0, 6]]]])
    d.mgr._last_operation_invoked_reports.hook = None      # the harness' own look at the state does not count
    d.mgr._transactions.hook = None
    ob = d.observe()
    return seen['accesses'], seen['unlocked'], ob


class Scheduler:
    """runs thread bodies one at a time; a thread gives up control at every hook point; at a point where several
    threads could continue, `choices` decides (default: the first); returns the branching structure for a DFS"""

    def __init__(self, choices):
        self.choices = list(choices)
        self.decisions = []          # (number of enabled threads, index chosen) at every real branching point
        self.trace = []              # (thread, kind) in execution order
        self.ctrl = threading.Semaphore(0)
        self.threads = {}
        self.names = {}
        self.lock = None
        self.unit = {}               # thread name -> what it is executing (response / report)
        self.acq_order = []          # units in the order of their lock acquisitions
        self.unlocked = []           # accesses to buffer / table without the lock
        self.problem = None

    def hook(self, kind):
        name = self.names.get(threading.get_ident())
        if name is None:
            return
        if kind == 'acquired':
            self.acq_order.append(self.unit.get(name))
            return
        if kind not in ('acquire', 'release') and not self.lock.held_by_me():
            self.unlocked.append(kind)
        if kind == 'release':
            return                   # the next point of this thread or of another one follows anyway
        st = self.threads[name]
        st['pending'] = kind
        self.ctrl.release()
        st['go'].acquire()
        st['pending'] = None

    def _enabled(self, st):
        return st['pending'] is not None and (st['pending'] != 'acquire' or self.lock.free())

    def run(self, bodies):
        for name, body in bodies.items():
            st = {'go': threading.Semaphore(0), 'pending': None, 'done': False, 'error': None}
            self.threads[name] = st

            def wrapper(name=name, body=body, st=st):
                self.names[threading.get_ident()] = name
                try:
                    body()
                except Exception as ex:  # noqa: BLE001
                    st['error'] = type(ex).__name__ + ': ' + str(ex)[:200]
                finally:
                    st['done'] = True
                    self.ctrl.release()
            st['thread'] = threading.Thread(target=wrapper, daemon=True)
        for name in sorted(self.threads):          # start one after the other: each runs up to its first point
            self.threads[name]['thread'].start()
            if not self.ctrl.acquire(timeout=20):
                self.problem = f'thread {name} did not reach a point'
                return
        while True:
            live = [n for n in sorted(self.threads) if not self.threads[n]['done']]
            if not live:
                return
            enabled = [n for n in live if self._enabled(self.threads[n])]
            if not enabled:
                self.problem = 'deadlock: ' + ', '.join(f'{n} at {self.threads[n]["pending"]}' for n in live)
                return
            pick = 0
            if len(enabled) > 1:
                k = len(self.decisions)
                pick = self.choices[k] if k < len(self.choices) else 0
                if pick >= len(enabled):
                    self.problem = 'schedule does not fit the run'
                    return
                self.decisions.append((len(enabled), pick))
            name = enabled[pick]
            self.trace.append((name, self.threads[name]['pending']))
            self.threads[name]['go'].release()
            if not self.ctrl.acquire(timeout=20):
                self.problem = f'thread {name} did not come back'
                return


def run_schedule(msgs, scenario, choices, parsed):
    """scenario: {'calls': [[id, st], ...] one calling thread each, 'reports': [[[id, st, tag], ...], ...] delivered one
    after the other by the notification thread}.  -> observation of one schedule"""
    d = ManagerDriver(msgs)
    sch = Scheduler(choices)
    sch.lock = instrument(d.mgr, sch.hook)
    bodies = {}
    for k, (tid, st) in enumerate(scenario['calls']):
        def call(k=k, tid=tid, st=st):
            name = f'call{k}'
            sch.unit[name] = ['resp', tid, st]
            client = StubServiceClient()
            client.response = parsed['resp'][k]
            fut = d.mgr.call_operation(client, d.request)
            d.calls.append((tid, fut))
        bodies[f'call{k}'] = call

    def notify():
        for k, parts in enumerate(scenario['reports']):
            sch.unit['notify'] = ['rep', parts]
            d.mgr.on_operation_invoked_report(parsed['rep'][k])
    if scenario['reports']:
        bodies['notify'] = notify
    sch.run(bodies)
    errors = [f'{n}: {st["error"]}' for n, st in sch.threads.items() if st['error']]
    if sch.problem:
        errors.append(sch.problem)
    d.calls.sort(key=lambda c: c[0])
    ob = d.observe()
    ob['errors'] = ob['errors'] + errors
    return {'obs': ob, 'order': sch.acq_order, 'decisions': sch.decisions, 'unlocked': sch.unlocked,
            'trace': [f'{n}:{k}' for n, k in sch.trace]}


def explore(msgs, scenario, limit):
    """all schedules of one scenario at the granularity of the hook points (depth first, each exactly once)"""
    parsed = {'resp': [msgs.response(tid, st) for tid, st in scenario['calls']],
              'rep': [msgs.report([tuple(p) for p in parts]) for parts in scenario['reports']]}
    out, stack = [], [[]]
    complete = True
    while stack:
        if len(out) >= limit:
            complete = False
            break
        prefix = stack.pop()
        r = run_schedule(msgs, scenario, prefix, parsed)
        r['choices'] = [c for _, c in r['decisions']]
        out.append(r)
        for i in range(len(prefix), len(r['decisions'])):
            n, _ = r['decisions'][i]
            for alt in range(1, n):
                stack.append([c for _, c in r['decisions'][:i]] + [alt])
    return out, complete
