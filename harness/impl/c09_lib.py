"""Helpers shared by c09_impl.py and gen_invocation_consts.py: real SetResponse / OperationInvokedReport
messages (built with the real message factory, serialised, parsed back with the real message reader) and
a driver for the real OperationsManager."""
from __future__ import annotations

import logging

import sdc11073.definitions_sdc  # noqa: F401  registers the protocol
from sdc11073.consumer import operations as cons_ops
from sdc11073.definitions_sdc import SdcV1Definitions
from sdc11073.pysoap.msgfactory import MessageFactory
from sdc11073.pysoap.msgreader import MessageReader
from sdc11073.xml_types import msg_types, pm_types
from sdc11073.xml_types.addressing_types import HeaderInformationBlock

STATES = ['Wait', 'Start', 'Cnclld', 'CnclldMan', 'Fin', 'FinMod', 'Fail']          # st_code order of the model
ERRS = [None, 'Unspec', 'Unkn', 'Inv', 'Oth']                                        # err_code order
COQ_STATE = {s: s for s in STATES}


def state_of(code: int):
    return msg_types.InvocationState(STATES[code])


def code_of(state) -> int:
    return STATES.index(state.value)


def err_code(err) -> int:
    return ERRS.index(None if err is None else err.value)


class CountingFuture(cons_ops.Future):
    """concurrent.futures.Future that counts set_result calls (a second call raises InvalidStateError)"""

    created: list = []
    order: list = []           # futures in the order of their (first) set_result call

    def __init__(self):
        super().__init__()
        self.n_set = 0
        self.errors = []
        CountingFuture.created.append(self)

    def set_result(self, result):
        self.n_set += 1
        CountingFuture.order.append(self)
        try:
            super().set_result(result)
        except Exception as ex:  # noqa: BLE001
            self.errors.append(type(ex).__name__)
            raise


class Messages:
    """real messages, round-tripped through serialisation and the real reader"""

    def __init__(self):
        lg = logging.getLogger('c09')
        self.factory = MessageFactory(SdcV1Definitions, None, lg, validate=True)
        self.reader = MessageReader(SdcV1Definitions, None, lg, validate=True)
        self.n = 0

    def _roundtrip(self, payload):
        inf = HeaderInformationBlock(action=payload.action, addr_to='urn:c09')
        created = self.factory.mk_soap_message(inf, payload=payload)
        raw = created.serialize()
        return self.reader.read_received_message(raw), created

    def response(self, tid: int, state_code: int):
        resp = msg_types.SetStringResponse()
        resp.InvocationInfo.TransactionId = tid
        resp.InvocationInfo.InvocationState = state_of(state_code)
        resp.MdibVersion = 1
        resp.SequenceId = 'urn:uuid:00000000-0000-0000-0000-000000000001'
        return self._roundtrip(resp)[0]

    def report(self, parts):
        """parts: list of (tid, state_code, tag) -> received OperationInvokedReport with that many ReportParts;
        the tag travels in OperationTarget"""
        rep = msg_types.OperationInvokedReport()
        rep.MdibVersion = 1
        rep.SequenceId = 'urn:uuid:00000000-0000-0000-0000-000000000001'
        for tid, st, tag in parts:
            part = rep.add_report_part()
            part.InvocationInfo.TransactionId = tid
            part.InvocationInfo.InvocationState = state_of(st)
            part.InvocationSource = pm_types.InstanceIdentifier('urn:c09', extension_string='x')
            part.OperationHandleRef = 'op'
            part.OperationTarget = f't{tag}'
        return self._roundtrip(rep)[0]

    def request(self):
        req = msg_types.SetString()
        req.OperationHandleRef = 'op'
        req.RequestedStringValue = 'x'
        return self._roundtrip(req)[1]


class StubServiceClient:
    """stands in for HostedServiceClient: post_message runs a callback (reports that arrive while the request
    is under way) and then returns the response"""

    def __init__(self):
        self.on_post = None
        self.response = None
        self.posted = 0

    def post_message(self, created_message, msg=None, request_manipulator=None, validate=True):
        self.posted += 1
        if self.on_post:
            self.on_post()
        return self.response


def part_tag(part) -> int:
    return int(part.OperationTarget[1:])


class ManagerDriver:
    """drives one real OperationsManager with an event list
       ['resp', id, st] | ['rep', [[id, st, tag], ...]]  (one report message, several parts)"""

    def __init__(self, msgs: Messages):
        cons_ops.Future = CountingFuture          # the name call_operation instantiates
        CountingFuture.created = []
        CountingFuture.order = []
        self.msgs = msgs
        self.mgr = cons_ops.OperationsManager(msgs.reader, 'c09')
        self.client = StubServiceClient()
        self.request = msgs.request()
        self.calls = []            # (id, future) in call order; strong references (the manager keeps weak ones)
        self.errors = []

    def run(self, events):
        """reports that precede a response are delivered from inside that call's post (they arrive while the
        request is under way); reports after the last response are delivered directly"""
        pending = []
        for ev in events:
            if ev[0] == 'rep':
                pending.append(ev)
                continue
            batch, pending = pending, []

            def deliver(batch=batch):
                for rep in batch:
                    self._report(rep[1])
            self.client.on_post = deliver
            self.client.response = self.msgs.response(ev[1], ev[2])
            try:
                fut = self.mgr.call_operation(self.client, self.request)
                self.calls.append((ev[1], fut))
            except Exception as ex:  # noqa: BLE001
                self.errors.append(['call_operation', type(ex).__name__])
        for rep in pending:
            self._report(rep[1])

    def _report(self, parts):
        try:
            self.mgr.on_operation_invoked_report(self.msgs.report([tuple(p) for p in parts]))
        except Exception as ex:  # noqa: BLE001
            self.errors.append(['on_operation_invoked_report', type(ex).__name__])

    def observe(self):
        """(completions in completion order is not observable from outside; we report per call, in call order:
        [id, result state, response state, from_resp, tags...] for completed calls), pending, recent"""
        done = []
        ids = {id(fut): tid for tid, fut in self.calls}
        for fut in CountingFuture.order:
            tid = ids.get(id(fut), -1)
            if fut.done():
                r = fut.result(timeout=0)
                from_resp = 1 if r.InvocationInfo is r.set_response.InvocationInfo else 0
                done.append([tid, code_of(r.InvocationInfo.InvocationState),
                             code_of(r.set_response.InvocationInfo.InvocationState), from_resp]
                            + [part_tag(p) for p in r.report_parts])
        pend = [[tid, code_of(od.set_response.InvocationInfo.InvocationState)] + [part_tag(p) for p in od.report_parts]
                for tid, od in self.mgr._transactions.items()]
        recent = [part_tag(p) for p in self.mgr._last_operation_invoked_reports]
        nset = [[tid, fut.n_set] for tid, fut in self.calls]
        return {'done': done, 'pend': pend, 'recent': recent, 'n_set': nset, 'errors': self.errors}
