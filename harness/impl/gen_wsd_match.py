"""Translator: emits coq/Wsd/Gen_Match.v (MatchBy URIs and the module switches the C14 model assumes). Fail-closed."""
import json
import sys

from sdc11073.wsdiscovery import wsdimpl
from sdc11073.xml_types import wsd_types


def lit(s):
    if not isinstance(s, str) or not s.isascii():
        raise SystemExit(f'fail-closed: constant {s!r} is not an ASCII str')
    return '[' + '; '.join(str(b) for b in s.encode()) + ']'


json.load(sys.stdin)
mb = wsdimpl.MatchBy
if sorted(m.name for m in mb) != ['ldap', 'strcmp', 'uri', 'uuid']:
    raise SystemExit(f'fail-closed: MatchBy members changed: {[m.name for m in mb]}')
if wsdimpl.allow_missing_app_sequence is not False:
    raise SystemExit('fail-closed: the default of allow_missing_app_sequence is not False (the model takes the option as a '
                     'parameter; the correspondence drives both values)')
W = wsdimpl.WSDiscovery
if not (W.PROBEMATCH_EPR and W.PROBEMATCH_TYPES and W.PROBEMATCH_SCOPES and W.PROBEMATCH_XADDRS):
    raise SystemExit('fail-closed: a PROBEMATCH_* flag is off (model sends complete ProbeMatch entries)')
acts = [wsd_types.HelloType.action, wsd_types.ByeType.action, wsd_types.ProbeType.action,
        wsd_types.ProbeMatchesType.action, wsd_types.ResolveType.action, wsd_types.ResolveMatchesType.action]
if len(set(acts)) != 6:
    raise SystemExit('fail-closed: discovery actions are not pairwise distinct')
text = f'''(* GENERATED on every run by harness/impl/gen_wsd_match.py from src/sdc11073/wsdiscovery/wsdimpl.py -- do not edit. *)
From Coq Require Import List NArith.
From SDC Require Import Location.Quote Wsd.Match.
Import ListNotations.
Open Scope N_scope.
Definition match_consts : mconsts := mkMConsts
  {lit(mb.ldap.value)}
  {lit(mb.uri.value)}
  {lit(mb.uuid.value)}
  {lit(mb.strcmp.value)}.
'''
print(json.dumps({'rel': 'Wsd/Gen_Match.v', 'text': text, 'matchby': {m.name: m.value for m in mb}}))
