"""Implementation side of C19 (TLS never falls back to plaintext).

Streams (one JSON request on stdin: {"stream": ..., ...}):
  world     real SdcProvider + real SdcConsumer for every requested configuration, wired through the
            loop-back transport of harness/world.py.  Extensions made here (world.py is not edited):
              * RecClient: calls the REAL SoapClient._mk_http_connection to learn whether the code would open an
                HTTPSConnection and with which SSLContext, then returns a fake connection that carries that decision
              * TlsFakeConnection: a coarse handshake (TLS client + plaintext port -> ssl.SSLError on connect,
                plaintext client + TLS port -> ConnectionResetError on the first request)
              * FakeHttpd: replaces only socketserver's TCP server inside httpserverimpl, so that the REAL
                HttpServerThreadBase.run decides about wrap_socket and base_url ("own" server configurations)
              * RecCtx: wraps the SSLContext objects of a container so that every wrap_socket call is recorded
            Every URL in every logged request/response body (and in the API results get_xaddrs / wsdiscovery
            publish) is scraped and classified by the element that carries it.
  ctxflags  certloader.mk_ssl_contexts(_from_folder) for every combination of (ca file, cyphers, loader); reads
            back verify_mode / check_hostname / protocol / number of CA certificates of both contexts
  clientcls the two SOAP client classes: ssl_context -> kind of connection object built
No sockets are opened, no sleeps.
"""
from __future__ import annotations

import asyncio
import http.client
import json
import logging
import os
import ssl
import sys
import threading
import time as _time
import traceback
import uuid
from decimal import Decimal
from pathlib import Path
from urllib.parse import urlparse

from lxml import etree

import world
from world import FakeConnection, FakeHttpServer, LoopClient, MockWsDiscovery, Net, _FakeSocket

from sdc11073 import certloader
from sdc11073.pysoap.soapclient import SoapClient

REPO = Path(os.environ.get('VERIF_REPO', '/repo'))
CERTS = REPO / 'tests' / 'certificates'
ALT = 'localhost'
IP = '127.0.0.1'

NS = {
    's12': 'http://www.w3.org/2003/05/soap-envelope',
    'wsa': 'http://www.w3.org/2005/08/addressing',
    'wse': 'http://schemas.xmlsoap.org/ws/2004/08/eventing',
    'dpws': 'http://docs.oasis-open.org/ws-dd/ns/dpws/2009/01',
    'wsd': 'http://docs.oasis-open.org/ws-dd/ns/discovery/2009/01',
    'mex': 'http://schemas.xmlsoap.org/ws/2004/09/mex',
}


# ----------------------------------------------------------------------------- recording SSL contexts
class WrappedSocket:
    def __init__(self, sock, ctx, server_side):
        self.sock = sock
        self.ctx = ctx
        self.server_side = server_side


class ListenSocket:
    """placeholder for the listening socket of the fake TCP server"""


class RecCtx:
    """stands in for an ssl.SSLContext inside an SSLContextContainer; records wrap_socket calls"""

    def __init__(self, real, label, rec):
        self._real = real
        self.label = label
        self._rec = rec

    def wrap_socket(self, sock, server_side=False, **kw):
        self._rec.append({'ctx': self.label, 'server_side': bool(server_side)})
        return WrappedSocket(sock, self, server_side)

    def __getattr__(self, name):
        return getattr(self._real, name)


def mk_real_container(ca=True):
    return certloader.mk_ssl_contexts_from_folder(CERTS, private_key='test_private_key.pem',
                                                  certificate='test_certificate.pem',
                                                  ca_public_key='test_certificate.pem' if ca else None,
                                                  ssl_passwd='password')


_REAL = {}


def mk_container(owner, rec):
    """a certloader container whose two contexts are wrapped by labelled recorders"""
    if 'c' not in _REAL:
        _REAL['c'] = mk_real_container()
    real = _REAL['c']
    return certloader.SSLContextContainer(client_context=RecCtx(real.client_context, owner + 'client', rec),
                                          server_context=RecCtx(real.server_context, owner + 'server', rec))


# ----------------------------------------------------------------------------- transport
class TlsSock(_FakeSocket):
    def __init__(self, peer, tls):
        super().__init__(b'', peer)
        self.tls = tls

    def getpeercert(self, binary_form=False):
        if not self.tls:
            raise AttributeError('getpeercert')     # a plain socket has no such method
        return b'cert' if binary_form else {'subject': 'simulated'}


class TlsFakeConnection(FakeConnection):
    """FakeConnection + coarse handshake.  tls = what the real SoapClient._mk_http_connection decided."""

    def __init__(self, net, netloc, client_name, ssl_context, tls, role):
        super().__init__(net, netloc.replace(ALT, IP), client_name, ssl_context)
        self.tls = tls
        self.role = role

    def _server(self):
        return self.net.servers.get(self.netloc)

    def connect(self):
        server = self._server()
        if server is None:
            self.net.attempts.append({'role': self.role, 'tls': self.tls, 'server_tls': None, 'outcome': 'refused'})
            raise world.ConnectionRefused(111, f'connection refused: {self.netloc}')
        if self.tls and not server.tls:
            self.net.attempts.append({'role': self.role, 'tls': True, 'server_tls': False, 'outcome': 'sslerror'})
            raise ssl.SSLError(1, '[SSL: WRONG_VERSION_NUMBER] simulated: plaintext port')
        out = 'ok' if self.tls == server.tls else 'reset'
        self.net.attempts.append({'role': self.role, 'tls': self.tls, 'server_tls': server.tls, 'outcome': out})
        self.sock = TlsSock((IP, self._port), self.tls)

    def request(self, method, url, body=None, headers=None):
        server = self._server()
        if server is not None and server.tls and not self.tls:
            self.sock = None
            raise ConnectionResetError(104, 'simulated: plaintext request to a TLS port')
        return super().request(method, url, body=body, headers=headers)


class RecClient(LoopClient):
    """per scenario a fresh subclass is made (Run.client_class) whose class attributes net / created belong to
    that scenario: a straggling thread of an earlier scenario in the same process cannot write into a later one"""
    role = '?'
    created: list = []
    _count = 0

    def __init__(self, netloc, socket_timeout, logger, ssl_context, *a, **k):
        SoapClient.__init__(self, netloc, socket_timeout, logger, ssl_context, *a, **k)
        RecClient._count += 1
        self.client_name = f'client{RecClient._count}'
        self.created.append({'netloc': netloc, 'tls': ssl_context is not None, 'name': self.client_name,
                             'role': self.role,
                             'ctx': None if ssl_context is None else getattr(ssl_context, 'label', 'foreign'),
                             'host': 'alt' if netloc.startswith(ALT) else 'ip'})

    def _mk_http_connection(self):
        real = SoapClient._mk_http_connection(self)          # the REAL decision; nothing is opened
        is_https = isinstance(real, http.client.HTTPSConnection)
        ctx = getattr(real, '_context', None) if is_https else None
        ent = {'role': self.role, 'https': is_https,
               'ctx': None if ctx is None else getattr(ctx, 'label', 'foreign'),
               'same_ctx': (ctx is self._ssl_context) if is_https else (self._ssl_context is None)}
        self.net.connections.append(ent)
        return TlsFakeConnection(self.net, self._netloc, self.client_name, self._ssl_context, is_https, self.role)


class ProvClient(RecClient):
    role = 'P'


class ConsClient(RecClient):
    role = 'C'


class ReRegistry(world.PathElementRegistry):
    """dispatcher of an application-supplied server: a consumer that starts again may register its path again
    (SdcConsumer.stop_all does not deregister from a shared server)"""

    def register_instance(self, path_element, instance):
        self._instances[path_element] = instance


class SharedServer(FakeHttpServer):
    """an HTTP server supplied by the application; TLS iff the application says so (scheme)"""

    def __init__(self, net, scheme):
        super().__init__(net, scheme=scheme)
        self.dispatcher = ReRegistry()
        self.tls = scheme == 'https'


class FakeHttpd(FakeHttpServer):
    """stands in for httpserverimpl._ThreadingHTTPServer (the TCP server) only"""
    net: Net = None
    instances: list = []

    def __init__(self, logger, server_address, chunk_size, supported_encodings):
        super().__init__(self.net, ip=server_address[0], supported_encodings=supported_encodings,
                         chunk_size=chunk_size)
        self.logger = logger
        self.socket = ListenSocket()
        self.threads = []
        self._shut = threading.Event()
        self.forced_tls = None          # set by the scenario operation 'flip': another peer answers at this address

    @property
    def tls(self):
        if self.forced_tls is not None:
            return self.forced_tls
        return isinstance(self.socket, WrappedSocket) and self.socket.server_side

    def serve_forever(self):
        self._shut.wait(30)

    def shutdown(self):
        self._shut.set()

    def server_close(self):
        self.stop()


# ----------------------------------------------------------------------------- URL scraping
FOREIGN_IP = '192.0.2.10:6000'          # netlocs that only a peer puts into a message (TEST-NET-1 / example.org)
FOREIGN_NAME = 'proxy.example.org:8080'
MARKERS = (IP, ALT, '192.0.2.10', 'proxy.example.org')


def _scheme_host(url):
    """('http'|'https'|other, 'ip'|'alt'|'other', well_formed) of a transport address"""
    url = (url or '').strip()
    scheme = url.split(':', 1)[0].lower() if ':' in url else ''
    host = 'alt' if ALT in url else ('ip' if IP in url else 'other')
    return scheme, host, url.startswith(scheme + '://')


def scrape(body: bytes, sender: str, out: list):
    """all transport addresses of one SOAP envelope, classified by the carrying element"""
    if not body:
        return
    try:
        root = etree.fromstring(body)
    except etree.XMLSyntaxError:
        return

    def add(kind, text, any_host=True):
        if text is None:
            return
        for tok in text.split():
            s, h, wf = _scheme_host(tok)
            if s in ('http', 'https') and (any_host or h != 'other' or any(m in tok for m in MARKERS)):
                out.append({'kind': kind, 'by': sender, 'scheme': s, 'host': h, 'wf': wf, 'url': tok})

    seen = set()

    def take(xpath, kind):
        for el in root.xpath(xpath, namespaces=NS):
            seen.add(el)
            add(kind, el.text)

    take('/s12:Envelope/s12:Header/wsa:To', 'to')
    take('//wse:NotifyTo/wsa:Address', 'notify_to')
    take('//wse:EndTo/wsa:Address', 'end_to')
    take('//wse:SubscribeResponse/wse:SubscriptionManager/wsa:Address', 'submgr')
    take('//wse:SubscriptionEnd/wse:SubscriptionManager/wsa:Address', 'submgr_end')
    take('//dpws:Hosted/wsa:EndpointReference/wsa:Address', 'hosted')
    take('//wsd:XAddrs', 'probe_xaddr')
    take('//mex:Location', 'wsdl')
    # opaque data of the peer that WS-Addressing obliges the sender to echo (reference parameters) is not an address
    # advertised by the sender
    for el in root.xpath('/s12:Envelope/s12:Header/*[@wsa:IsReferenceParameter]', namespaces=NS):
        seen.update(el.iter())
    # catch-all: any other text or attribute that names a transport address of one of the parties or of the peer
    for el in root.iter():
        if not isinstance(el.tag, str) or el in seen:
            continue
        if el.text and any(m in el.text for m in MARKERS):
            add('other:' + etree.QName(el).localname, el.text, any_host=False)
        for k, v in el.attrib.items():
            if any(m in v for m in MARKERS):
                add('other:@' + etree.QName(k).localname, v, any_host=False)


def http_body(raw: bytes) -> bytes:
    """decoded body of a raw HTTP request or response as logged (de-chunked, decompressed)"""
    from sdc11073.httpserver.compression import CompressionHandler
    i = raw.find(b'\r\n\r\n')
    if i < 0:
        return b''
    head, body = raw[:i].decode('iso-8859-1'), raw[i + 4:]
    hdr = {}
    for line in head.split('\r\n')[1:]:
        if ':' in line:
            k, v = line.split(':', 1)
            hdr[k.strip().lower()] = v.strip()
    if 'chunked' in hdr.get('transfer-encoding', '').lower():
        out, rest = b'', body
        while rest:
            j = rest.find(b'\r\n')
            if j < 0:
                break
            n = int(rest[:j].split(b';')[0] or b'0', 16)
            if n == 0:
                break
            out += rest[j + 2:j + 2 + n]
            rest = rest[j + 2 + n + 2:]
        body = out
    enc = hdr.get('content-encoding')
    if enc and body:
        body = CompressionHandler.decompress_payload(enc, body)
    return body


# ----------------------------------------------------------------------------- time
class FastTime:
    """stands in for the time module inside the two subscription managers: their 1 s polling loops sleep on an
    event, so they stay asleep during a scenario (which lasts a few ms) and wake at once at shutdown"""

    def __init__(self):
        self.wake = threading.Event()

    def sleep(self, seconds):
        if self.wake.wait(seconds):
            _time.sleep(0.002)          # woken for shutdown: poll fast, but do not spin

    def __getattr__(self, name):
        return getattr(_time, name)


# ----------------------------------------------------------------------------- one configuration
def exc_name(ex):
    n = type(ex).__name__
    if isinstance(ex, ssl.SSLError):
        return 'SSLError'
    return n


class Run:
    def __init__(self, case):
        from sdc11073.consumer import consumerimpl
        from sdc11073.httpserver import httpserverimpl
        from sdc11073.provider import providerimpl
        self.case = case
        self.net = Net()
        self.net.attempts = []
        self.net.connections = []
        self.created = []
        # only the TCP server is replaced; HttpServerThreadBase stays real
        httpserverimpl._ThreadingHTTPServer = type('FakeHttpdRun', (FakeHttpd,), {'net': self.net})
        from sdc11073.consumer import subscription as c_subscription
        from sdc11073.provider import subscriptionmgr_base
        # the tutorial alarm role provider publishes AlertSystemState updates every second from a worker thread;
        # park it, so that the provider contacts the consumer only when the scenario says so
        from tutorial.productandroles import alarmprovider
        alarmprovider.AlertSystemStateMaintainer.WORKER_THREAD_INTERVAL = 3600.0
        self.ctime = FastTime()         # consumer side and provider side are woken separately
        self.ptime = FastTime()
        c_subscription.time = self.ctime
        subscriptionmgr_base.time = self.ptime
        self.running = False
        self.wraps = []
        self.advs = []         # scraped from API results
        self.tr = {'phases': []}
        self.consumerimpl = consumerimpl
        self.providerimpl = providerimpl
        self.scraped_upto = 0
        self.client_owner = {}

    # ---- helpers
    def client_class(self, base):
        return type(base.__name__ + 'Run', (base,), {'net': self.net, 'created': self.created})

    def phase(self, name, status):
        self.tr['phases'].append([name, status])

    def api_addr(self, kind, url):
        s, h, wf = _scheme_host(url)
        self.advs.append({'kind': kind, 'by': 'P', 'scheme': s, 'host': h, 'wf': wf, 'url': url})

    def start_provider(self):
        from sdc11073.location import SdcLocation
        from tests import mockstuff
        c = self.case
        comp = self.providerimpl.provider_components_sync_factory()
        comp.soap_client_class = self.client_class(ProvClient)
        self.p_cont = mk_container('P', self.wraps) if c['p_tls'] else None
        self.wsd = MockWsDiscovery(IP)
        mdib_bytes = (REPO / 'tests' / '70041_MDIB_Final.xml').read_bytes()
        self.provider = mockstuff.SomeDevice(self.wsd, mdib_bytes, uuid.UUID(int=0x1234), components=comp,
                                             ssl_context_container=self.p_cont, max_subscription_duration=3600,
                                             alternative_hostname=ALT if c['p_alt'] else None)
        self.p_shared = None
        if c['p_srv'] != 'own':
            self.p_shared = SharedServer(self.net, c['p_srv'])
        self.provider.start_all(start_rtsample_loop=False, shared_http_server=self.p_shared)
        self.provider.set_location(SdcLocation(fac='f', poc='p', bed='b'))
        self.tr['p_urlschema'] = self.provider._urlschema
        for x in self.provider.get_xaddrs():
            self.api_addr('xaddr', x)
        for (_epr, _types, _scopes, x_addrs) in self.wsd.published:
            for x in x_addrs:
                self.api_addr('wsd_xaddr', x)
        for u in self.provider.base_urls:
            self.api_addr('base_url', u.geturl())
        from tutorial.codedvaluecomparator import _coded_value_comparator
        from tutorial.productandroles.nomenclature import NomenclatureCodes
        from sdc11073.mdib.mdibaccessor import get_one_descriptor_by_type
        from sdc11073.xml_types import pm_qnames as pm
        mdib = self.provider.mdib
        self.op_handle = get_one_descriptor_by_type(mdib, NomenclatureCodes.MDC_OP_SET_TIME_SYNC_REF_SRC,
                                                    _coded_value_comparator).Handle
        self.metric_handle = sorted(d.Handle for d in mdib.descriptions.NODETYPE.get(pm.NumericMetricDescriptor))[0]
        srv = self.provider._http_server
        self.tr['p_listen_tls'] = bool(srv.tls if self.p_shared is not None else srv.httpd.tls)

    def mk_consumer(self):
        from sdc11073.definitions_sdc import SdcV1Definitions
        from sdc11073.dispatch import RequestDispatcher
        c = self.case
        cc = self.consumerimpl.default_components_factory()
        cc.soap_client_class = self.client_class(ConsClient)
        # the consumer's subscription manager is a thread that polls once a second and renews what is about to expire.
        # The scenario sends Renew itself; the polling thread is parked (woken for stop_all / restart() it would race
        # with the Subscribe requests of the following start: Renew on a half-initialised subscription)
        base_mgr = cc.subscription_manager_class

        class ParkedSubscriptionManager(base_mgr):
            def __init__(self, *a, **k):
                super().__init__(*a, **k)
                self._parked = threading.Event()

            def run(self):
                self._run = True
                self._parked.wait()

            def stop(self):
                self._parked.set()
                super().stop()

        cc.subscription_manager_class = ParkedSubscriptionManager
        cc.action_dispatcher_class = RequestDispatcher
        x_addr = self.provider.get_xaddrs()[0]
        if c['x'] == 'flip':
            x_addr = ('http' + x_addr[5:]) if x_addr.startswith('https') else ('https' + x_addr[4:])
        elif c['x'] == 'bad':
            x_addr = 'ftp' + x_addr[x_addr.index(':'):]
        self.tr['x_addr_scheme'] = x_addr.split(':')[0]
        mode = c['c_mode']
        self.c_cont = mk_container('C', self.wraps) if mode in ('optional', 'enforced') else None
        self.consumer = self.consumerimpl.SdcConsumer(
            x_addr, sdc_definitions=SdcV1Definitions, ssl_context_container=self.c_cont, validate=True,
            components=cc, force_ssl_connect=mode in ('enforced', 'enforced_noctx'),
            alternative_hostname=ALT if c['c_alt'] else None)
        self.c_shared = None
        if c['c_srv'] != 'own':
            self.c_shared = SharedServer(self.net, c['c_srv'])

    def scrape_new(self, out):
        log = self.net.log
        for ex in log[self.scraped_upto:]:
            sender = self.client_role(ex.client)
            if sender == 'F':           # hand-built request of the foreign peer: its content is input, not judged
                scrape(http_body(ex.response), 'P', out)
                continue
            scrape(http_body(ex.request), sender, out)
            scrape(http_body(ex.response), 'P' if sender == 'C' else 'C', out)
        self.scraped_upto = len(log)

    def client_role(self, name):
        if name == 'foreign':
            return 'F'
        for ent in list(self.created):
            if ent['name'] == name:
                return ent['role']
        return '?'

    # ---- scenario
    def run(self):
        tr = self.tr
        c = self.case
        try:
            self.start_provider()
            tr['p_start'] = 'ok'
        except Exception as ex:  # noqa: BLE001
            tr['p_start'] = exc_name(ex)
            tr['error'] = traceback.format_exc()[-1500:]
            return self.finish()
        try:
            self.mk_consumer()
            tr['ctor'] = 'ok'
        except Exception as ex:  # noqa: BLE001
            tr['ctor'] = exc_name(ex)
            return self.finish()
        cons = self.consumer
        tr['starts'] = []
        self.do_start(False)
        tr['start'] = tr['starts'][0]
        for op in c['ops']:
            t0 = _time.monotonic()
            try:
                self.phase(op[0], self.do_op(op))
            except Exception as ex:  # noqa: BLE001
                self.phase(op[0], exc_name(ex))
            self.tr['phases'][-1].append(round(_time.monotonic() - t0, 2))
        tr['isc'] = cons.is_ssl_connection
        tr['running'] = self.running
        if self.running:
            tr['c_listen_tls'] = self.sink_tls()
            tr['c_base_url'] = list(_scheme_host(cons.base_url))[:2]
        # shutdown
        self.ctime.wake.set()
        self.ptime.wake.set()
        try:
            if c['shutdown'] == 'provider_first':
                self.provider.stop_all(send_subscription_end=True)
                cons.stop_all(unsubscribe=False)
            else:
                cons.stop_all(unsubscribe=self.running)
                self.provider.stop_all(send_subscription_end=True)
            self.phase('shutdown', 'ok')
        except Exception as ex:  # noqa: BLE001
            self.phase('shutdown', exc_name(ex))
        return self.finish()

    def sink_tls(self):
        srv = self.consumer._http_server
        return bool(srv.tls if self.c_shared is not None else srv.httpd.tls)

    def do_start(self, again):
        """start_all on a stopped consumer (again=False) or restart() (again=True); records the outcome"""
        cons = self.consumer
        try:
            if again:
                cons.restart()
            else:
                cons.start_all(shared_http_server=self.c_shared)
            self.running = True
            self.tr['starts'].append('ok')
        except Exception as ex:  # noqa: BLE001
            self.running = False
            self.tr['starts'].append(exc_name(ex))
            self.tr.setdefault('start_msgs', []).append(str(ex)[:200])
        return self.tr['starts'][-1]

    def subscriptions(self):
        mgr = self.consumer.subscription_mgr
        return list(mgr.subscriptions.values()) if mgr is not None else []

    def do_op(self, op):
        cons = self.consumer
        kind = op[0]
        # ---- life cycle
        if kind == 'flip':              # another kind of peer (TLS <-> plaintext) answers at the provider address
            srv = self.provider._http_server
            if self.p_shared is not None:
                srv.tls = not srv.tls
            else:
                srv.httpd.forced_tls = not srv.httpd.tls
            return 'tls' if (srv.tls if self.p_shared is not None else srv.httpd.tls) else 'plain'
        if kind == 'start':
            return 'noop' if self.running else self.do_start(False)
        if kind == 'restart':
            return self.do_start(True)
        if not self.running:
            return 'stopped'            # a stopped consumer is not used
        if kind == 'stop':
            try:
                cons.stop_all(unsubscribe=True)
            finally:
                self.running = False
            return 'ok'
        if kind == 'probe':
            r = cons.send_probe()
            return 'ok' if r.ProbeMatch else 'empty'
        if kind == 'getmdib':
            cons.client('Get').get_mdib()
            return 'ok'
        if kind == 'operate':
            def n_p_attempts():
                return sum(1 for a in list(self.net.attempts) if a['role'] == 'P')
            n_att = n_p_attempts()
            fut = cons.client('Set').set_string(self.op_handle, '169.254.0.%d' % (op[1] % 250))
            reachable = (self.p_cont is not None) == self.sink_tls()
            if reachable:
                res = fut.result(timeout=60)
                return 'ok:' + str(res.InvocationInfo.InvocationState.value)
            # the report cannot be delivered: wait until the SCO worker has tried, never for the result.  It tries
            # only while the provider still holds a valid subscription for the report (otherwise an earlier failed
            # attempt is already on record)
            action = self.provider.mdib.sdc_definitions.Actions.OperationInvokedReport
            live = [s for mgr in self.provider._subscriptions_managers.values()
                    for s in list(mgr._subscriptions.objects)
                    if s.is_valid and s.unsubscribed_at is None and s.matches(action)]
            t_end = _time.monotonic() + (60 if live else 0.2)
            # (a pooled client that already failed raises NotConnected without a new attempt: then the
            # subscription turns invalid instead)
            while _time.monotonic() < t_end and n_p_attempts() == n_att and (not live or any(s.is_valid for s in live)):
                _time.sleep(0.005)
            return 'requested'

        if kind == 'notify':
            before = len(self.net.log)
            with self.provider.mdib.metric_state_transaction() as tr:
                st = tr.get_state(self.metric_handle)
                if st.MetricValue is None:
                    st.mk_metric_value()
                st.MetricValue.Value = Decimal(op[1])
            sent = [e for e in self.net.log[before:] if self.client_role(e.client) == 'P']
            return 'sent' if any(e.status == 202 or e.status == 200 for e in sent) else 'undelivered'
        subs = self.subscriptions()
        if not subs:
            return 'nosub'
        sub = subs[op[1] % len(subs)]
        if kind == 'renew':
            return 'ok' if sub.renew(60) > 0 else 'fail'
        if kind == 'getstatus':
            return 'ok' if sub.get_status() > 0 else 'fail'
        if kind == 'cycle':          # Unsubscribe followed by a new Subscribe of the same filter
            was = sub.is_subscribed
            if was:
                sub.unsubscribe()
            sub.subscribe(expires=60)
            return ('ok' if was else 'sub') if sub.is_subscribed else 'fail'
        raise ValueError(kind)

    def finish(self):
        tr = self.tr
        out = list(self.advs)
        self.scrape_new(out)
        tr['advs'] = out
        tr['created'] = [{k: e.get(k) for k in ('role', 'tls', 'ctx', 'host')} for e in list(self.created)]
        tr['connections'] = self.net.connections
        tr['attempts'] = self.net.attempts
        tr['wraps'] = self.wraps
        tr['n_exchanges'] = len(self.net.log)
        acts = {}
        for ex in self.net.log:
            m = None
            try:
                root = etree.fromstring(http_body(ex.request))
                m = root.findtext('s12:Header/wsa:Action', namespaces=NS)
            except Exception:  # noqa: BLE001
                pass
            key = (m or '?').rsplit('/', 1)[-1]
            acts[key] = acts.get(key, 0) + 1
        tr['actions'] = acts
        return tr


# ----------------------------------------------------------------------------- foreign peer
class ForeignSink(FakeHttpServer):
    """event sink of a peer that is not this library: accepts every request with 202"""

    def __init__(self, net, tls):
        super().__init__(net)
        self.tls = tls
        self.received = 0

    def handle_raw(self, raw, peer):
        self.received += 1
        return b'HTTP/1.1 202 Accepted\r\nContent-Length: 0\r\n\r\n'


S12 = 'http://www.w3.org/2003/05/soap-envelope'
WSA = 'http://www.w3.org/2005/08/addressing'
WSE = 'http://schemas.xmlsoap.org/ws/2004/08/eventing'
ACT_METRIC = 'http://standards.ieee.org/downloads/11073/11073-20701-2018/StateEventService/EpisodicMetricReport'


class ForeignRun(Run):
    """a TLS or plaintext provider talked to by a hand-built client (no SdcConsumer): every peer-supplied
    address-like field of every request is taken from the case"""

    def addr(self, spec, service_path):
        """spec = None | 'anonymous' | 'urn' | 'na' | [scheme, netloc kind, path kind]"""
        if spec is None:
            return None
        if spec == 'anonymous':
            return WSA + '/anonymous'
        if spec == 'urn':
            return 'urn:uuid:00000000-0000-0000-0000-0000000000aa'
        if spec == 'na':
            return 'n/a'
        scheme, nl, pk = spec
        port = self.provider._http_server.server_port
        netloc = {'self': f'{IP}:{port}', 'alt': f'{ALT}:{port}', 'other_ip': FOREIGN_IP, 'other_name': FOREIGN_NAME,
                  'sink': self.sink_netloc}[nl]
        path = {'service': service_path, 'other': '/somewhere/else', 'slash': service_path + '/'}[pk]
        return f'{scheme}://{netloc}{path}'

    def epr(self, tag, spec, service_path, refparam=None):
        a = self.addr(spec, service_path)
        if a is None:
            return ''
        rp = ''
        if refparam:
            rp = (f'<wsa:ReferenceParameters><f:Ident xmlns:f="urn:foreign-peer">{refparam}</f:Ident>'
                  '</wsa:ReferenceParameters>')
        return f'<{tag}><wsa:Address>{a}</wsa:Address>{rp}</{tag}>'

    def post(self, service_path, action, body, f):
        """one hand-built request; f = peer-chosen fields of this request"""
        self.msg_no += 1
        to = self.addr(f.get('to'), service_path)
        hdr = ('' if to is None else f'<wsa:To>{to}</wsa:To>') + f'<wsa:Action>{action}</wsa:Action>' \
            f'<wsa:MessageID>urn:uuid:{uuid.UUID(int=self.msg_no)}</wsa:MessageID>' \
            + self.epr('wsa:ReplyTo', f.get('reply_to'), service_path) + self.epr('wsa:From', f.get('from'), service_path)
        xml = (f'<?xml version="1.0" encoding="UTF-8"?><s12:Envelope xmlns:s12="{S12}" xmlns:wsa="{WSA}" '
               f'xmlns:wse="{WSE}"><s12:Header>{hdr}</s12:Header><s12:Body>{body}</s12:Body></s12:Envelope>').encode()
        port = self.provider._http_server.server_port
        host = {'self': f'{IP}:{port}', 'alt': f'{ALT}:{port}', 'other_ip': FOREIGN_IP,
                'other_name': FOREIGN_NAME}[f.get('host', 'self')]
        target = {'plain': service_path, 'slash': service_path + '/',
                  'absolute_http': f'http://{host}{service_path}',
                  'absolute_https': f'https://{host}{service_path}'}[f.get('path', 'plain')]
        raw = (f'POST {target} HTTP/1.1\r\nHost: {host}\r\nContent-type: application/soap+xml; charset=utf-8\r\n'
               f'Accept-Encoding: identity\r\nContent-Length: {len(xml)}\r\n\r\n').encode() + xml
        srv = self.provider._http_server if self.p_shared is not None else self.provider._http_server.httpd
        ex = world.Exchange(len(self.net.log), 'foreign', srv.netloc, 'POST', target, raw, xml)
        self.net.log.append(ex)
        ex.response = srv.handle_raw(raw, (IP, 40000))      # the peer speaks whatever the port speaks
        try:
            ex.status = int(ex.response.split(b' ', 2)[1])
        except Exception:  # noqa: BLE001
            ex.status = None
        body = http_body(ex.response)
        try:
            root = etree.fromstring(body) if body else None
        except etree.XMLSyntaxError:
            return ex.status, None
        if root is not None and root.find('s12:Body/s12:Fault', namespaces=NS) is not None:
            return f'fault({ex.status})', root          # answered, but the request was not carried out
        return ex.status, root

    def run(self):
        tr = self.tr
        c = self.case
        self.msg_no = 0
        try:
            self.start_provider()
            tr['p_start'] = 'ok'
        except Exception as ex:  # noqa: BLE001
            tr['p_start'] = exc_name(ex)
            tr['error'] = traceback.format_exc()[-1500:]
            return self.finish()
        sink = ForeignSink(self.net, c['sink_tls'])
        self.sink_netloc = f"{ALT if c['sink_alt'] else IP}:{sink.server_port}"
        prefix = '/' + self.provider.path_prefix
        F = c['fields']
        st = tr['statuses'] = {}
        st['get'] = self.post(prefix, 'http://schemas.xmlsoap.org/ws/2004/09/transfer/Get', '', F['get'])[0]
        st['hosted_md'] = self.post(prefix + '/StateEvent', 'http://schemas.xmlsoap.org/ws/2004/09/mex/GetMetadata/Request',
                                    '<m:GetMetadata xmlns:m="http://schemas.xmlsoap.org/ws/2004/09/mex"/>',
                                    F['hosted_md'])[0]
        st['probe'] = self.post(prefix, 'http://docs.oasis-open.org/ws-dd/ns/discovery/2009/01/Probe',
                                '<d:Probe xmlns:d="http://docs.oasis-open.org/ws-dd/ns/discovery/2009/01"><d:Types/></d:Probe>',
                                F['probe'])[0]
        sub = F['subscribe']
        body = ('<wse:Subscribe>' + self.epr('wse:EndTo', sub.get('end_to'), '/sink/end')
                + '<wse:Delivery Mode="http://schemas.xmlsoap.org/ws/2004/08/eventing/DeliveryModes/Push">'
                + self.epr('wse:NotifyTo', sub['notify_to'], '/sink/notify',
                           self.addr(sub.get('refparam'), '/sink/ref'))
                + '</wse:Delivery><wse:Expires>PT1M</wse:Expires>'
                  f'<wse:Filter Dialect="http://docs.oasis-open.org/ws-dd/ns/dpws/2009/01/Action">{ACT_METRIC}</wse:Filter>'
                  '</wse:Subscribe>')
        status, root = self.post(prefix + '/StateEvent', WSE + '/Subscribe', body, sub)
        st['subscribe'] = status
        mgr = None if root is None else root.findtext('.//wse:SubscriptionManager/wsa:Address', namespaces=NS)
        tr['subscribed'] = mgr is not None
        if mgr is not None:
            # the peer keeps using the path it was told, on the connection it has
            mgr_path = urlparse(mgr).path or prefix + '/StateEvent'
            st['getstatus'] = self.post(mgr_path, WSE + '/GetStatus', '<wse:GetStatus/>', F['getstatus'])[0]
            st['renew'] = self.post(mgr_path, WSE + '/Renew', '<wse:Renew><wse:Expires>PT1M</wse:Expires></wse:Renew>',
                                    F['renew'])[0]
            try:
                with self.provider.mdib.metric_state_transaction() as mtr:
                    state = mtr.get_state(self.metric_handle)
                    if state.MetricValue is None:
                        state.mk_metric_value()
                    state.MetricValue.Value = Decimal(7)
                st['notify'] = 'ok'
            except Exception as ex:  # noqa: BLE001
                st['notify'] = exc_name(ex)
            if c['end'] == 'unsubscribe':
                st['unsubscribe'] = self.post(mgr_path, WSE + '/Unsubscribe', '<wse:Unsubscribe/>', F['unsubscribe'])[0]
        tr['sink_received'] = sink.received
        self.ptime.wake.set()
        try:
            self.provider.stop_all(send_subscription_end=True)
            self.phase('shutdown', 'ok')
        except Exception as ex:  # noqa: BLE001
            self.phase('shutdown', exc_name(ex))
        tr['sink_received_total'] = sink.received
        return self.finish()


def run_foreign(req):
    logging.getLogger('sdc').setLevel(logging.CRITICAL)
    logging.disable(logging.CRITICAL)
    traces = []
    for case in req['cases']:
        try:
            traces.append(ForeignRun(case).run())
        except Exception:  # noqa: BLE001
            traces.append({'crash': traceback.format_exc()[-2000:]})
    return {'traces': traces}


def run_world(req):
    logging.getLogger('sdc').setLevel(logging.CRITICAL)
    logging.disable(logging.CRITICAL)
    traces = []
    for case in req['cases']:
        try:
            t0 = _time.monotonic()
            traces.append(Run(case).run())
            traces[-1]['wall_s'] = round(_time.monotonic() - t0, 2)
        except Exception:  # noqa: BLE001
            traces.append({'crash': traceback.format_exc()[-2000:]})
    return {'traces': traces}


# ----------------------------------------------------------------------------- certloader flags
VM = {ssl.CERT_NONE: 'none', ssl.CERT_OPTIONAL: 'optional', ssl.CERT_REQUIRED: 'required'}


def ctx_flags(ctx):
    return {'verify': VM[ctx.verify_mode], 'check_hostname': bool(ctx.check_hostname),
            'protocol': {ssl.PROTOCOL_TLS_CLIENT: 'client', ssl.PROTOCOL_TLS_SERVER: 'server'}.get(ctx.protocol, 'other'),
            'n_ca': ctx.cert_store_stats()['x509_ca'],
            'no_sslv3': bool(ctx.options & ssl.OP_NO_SSLv3),
            'min_tls12': ctx.minimum_version >= ssl.TLSVersion.TLSv1_2}


def tls_handshake(server_ctx, client_ctx):
    """one TLS handshake over a socketpair (no network): 'accepted' iff the client gets application data through"""
    import socket
    a, b = socket.socketpair()
    a.settimeout(5)
    b.settimeout(5)
    res = {}

    def serve():
        try:
            with server_ctx.wrap_socket(a, server_side=True) as s_:
                s_.recv(1)
                s_.sendall(b'k')
            res['server'] = 'ok'
        except Exception as ex:  # noqa: BLE001
            res['server'] = exc_name(ex)
        finally:
            a.close()

    th = threading.Thread(target=serve, daemon=True)
    th.start()
    try:
        with client_ctx.wrap_socket(b, server_side=False) as c_:
            c_.sendall(b'x')
            got = c_.recv(1)          # TLS 1.3: a refused client certificate shows up on the first read
        out = 'accepted' if got == b'k' else 'rejected'
    except Exception:  # noqa: BLE001
        out = 'rejected'
    finally:
        b.close()
    th.join(6)
    return out


def run_ctxflags(req):
    """certloader on REAL key material in a temp folder: CA file not named / named + present / named + missing,
    password right / wrong / not needed (unencrypted key), cyphers none / file present / file missing"""
    import shutil
    import subprocess
    import tempfile
    res = []
    with tempfile.TemporaryDirectory() as td:
        td = Path(td)
        shutil.copy(CERTS / 'test_private_key.pem', td / 'userkey.pem')
        shutil.copy(CERTS / 'test_certificate.pem', td / 'usercert.pem')
        shutil.copy(CERTS / 'test_certificate.pem', td / 'cacert.pem')       # self-signed: its own CA
        subprocess.run(['openssl', 'rsa', '-in', str(td / 'userkey.pem'), '-passin', 'pass:password',
                        '-out', str(td / 'plainkey.pem')], check=True, capture_output=True, timeout=30)
        (td / 'cyphers.txt').write_text('# comment\n\nHIGH:!aNULL\n')
        anon = ssl.SSLContext(ssl.PROTOCOL_TLS_CLIENT)       # a TLS client without any certificate
        anon.check_hostname = False
        anon.verify_mode = ssl.CERT_NONE
        for case in req['cases']:
            try:
                if case['loader'] == 'defaults':
                    res.append({'status': 'ok', 'client': ctx_flags(ssl.SSLContext(ssl.PROTOCOL_TLS_CLIENT)),
                                'server': ctx_flags(ssl.SSLContext(ssl.PROTOCOL_TLS_SERVER)), 'distinct': True})
                    continue
                ca_name = {'none': None, 'given': 'cacert.pem', 'missing': 'no_such_ca.pem'}[case['ca']]
                key, pw = {'right': ('userkey.pem', 'password'), 'wrong': ('userkey.pem', 'not-the-password'),
                           'absent': ('plainkey.pem', None)}[case['passwd']]
                cy_name = {'none': None, 'given': 'cyphers.txt', 'missing': 'no_such_cyphers.txt'}[case['cyphers']]
                if case['loader'] == 'folder':
                    c = certloader.mk_ssl_contexts_from_folder(
                        td, private_key=key, certificate='usercert.pem', ca_public_key=ca_name,
                        cyphers_file=cy_name, ssl_passwd=pw)
                else:
                    c = certloader.mk_ssl_contexts(
                        td / key, td / 'usercert.pem', (td / ca_name) if ca_name else None,
                        'HIGH:!aNULL' if cy_name else None, pw)
                r = {'status': 'ok', 'client': ctx_flags(c.client_context), 'server': ctx_flags(c.server_context),
                     'distinct': c.client_context is not c.server_context}
                r['anonymous_client'] = tls_handshake(c.server_context, anon)
                if case['ca'] == 'given':       # positive control: the pair itself can talk (self-signed cert = CA)
                    r['own_client'] = tls_handshake(c.server_context, c.client_context)
                res.append(r)
            except Exception as ex:  # noqa: BLE001
                res.append({'status': exc_name(ex), 'msg': str(ex)[:120]})
    return {'results': res}


# ----------------------------------------------------------------------------- client classes
def run_clientcls(req):
    from sdc11073.definitions_sdc import SdcV1Definitions
    from sdc11073.pysoap.soapclient_async import SoapClientAsync
    real = mk_real_container()
    res = []
    for case in req['cases']:
        ctx = {'none': None, 'client': real.client_context, 'server': real.server_context}[case['ctx']]
        if case['cls'] == 'sync':
            cl = SoapClient('127.0.0.1:1', 1, logging.getLogger('x'), ctx, SdcV1Definitions, None)
            conn = cl._mk_http_connection()
            https = isinstance(conn, http.client.HTTPSConnection)
            res.append({'https': https, 'same_ctx': (getattr(conn, '_context', None) is ctx) if https else True})
        else:
            cl = SoapClientAsync('127.0.0.1:1', 1, logging.getLogger('x'), ctx, SdcV1Definitions, None)

            async def go(cl=cl):
                sess = await cl._mk_http_connection()
                r = (str(sess._base_url.scheme), sess.connector._ssl)
                await sess.close()
                return r
            scheme, used = asyncio.run(go())
            res.append({'https': scheme == 'https', 'same_ctx': (used is ctx) if ctx is not None else scheme == 'http'})
    return {'results': res}


def main():
    req = json.load(sys.stdin)
    out = {'world': run_world, 'foreign': run_foreign, 'ctxflags': run_ctxflags, 'clientcls': run_clientcls}[req['stream']](req)
    print(json.dumps(out, default=str))


if __name__ == '__main__':
    main()
