"""C20: query services.  (a) GetMdState / GetContextStates through the real consumer clients over the loop-back
transport for generated handle lists, (b) LocalizationStorage.filter_localized_texts / get_supported_languages for
generated stores and filters (through the service client as well when the provider offers the service)."""
import json
import sys

import mdibrun
mdibrun.preimport()
from world import World  # noqa: E402

from sdc11073.location import SdcLocation  # noqa: E402
from sdc11073.provider.porttypes import localizationservice as ls  # noqa: E402

req = json.load(sys.stdin)
out = {'worlds': [], 'texts': []}

for wreq in req.get('worlds', []):
    w = World(mdib_file=wreq['mdib'])
    w.provider.contextstates_in_getmdib = wreq.get('flag', True)
    cons = w.add_consumer()
    pm = w.provider.mdib
    pm.pre_commit_handler = None
    pm.post_commit_handler = None
    # context states in every MDS: one per context descriptor, two for the first
    ctx_descr = sorted((d for d in pm.descriptions.objects if d.is_context_descriptor), key=lambda d: d.Handle)
    with pm.context_state_transaction() as tr:
        for i, d in enumerate(ctx_descr):
            tr.mk_context_state(d.Handle, f'cs{i}a', set_associated=True)
            if i % 2 == 0:
                tr.mk_context_state(d.Handle, f'cs{i}b')
    states = [{'ctx': False, 'handle': s.DescriptorHandle, 'dh': s.DescriptorHandle, 'mds': s.source_mds}
              for s in list(pm.states.objects)]
    cstates = [{'ctx': True, 'handle': s.Handle, 'dh': s.DescriptorHandle, 'mds': s.source_mds}
               for s in list(pm.context_states.objects)]
    mds = sorted(d.Handle for d in pm.descriptions.objects if d.NODETYPE.localname == 'MdsDescriptor')
    res = {'mdib': wreq['mdib'], 'flag': wreq.get('flag', True), 'states': states, 'cstates': cstates, 'mds': mds,
           'all_handles': sorted(d.Handle for d in pm.descriptions.objects), 'queries': []}
    for q in wreq['queries']:
        handles = q['handles']
        try:
            if q['kind'] == 'state':
                r = cons.get_service_client.get_md_state(handles)
                items = [[s.is_context_state, s.Handle if s.is_context_state else s.DescriptorHandle]
                         for s in r.result.MdState.State]
            else:
                r = cons.context_service_client.get_context_states(handles)
                items = [[True, s.Handle] for s in r.result.ContextState]
            res['queries'].append({'q': q, 'items': items})
        except Exception as ex:  # noqa: BLE001
            res['queries'].append({'q': q, 'error': repr(ex)[:300]})
    out['worlds'].append(res)
    w.stop()

W = ['xs', 's', 'm', 'l', 'xl', 'xxl']
from sdc11073.xml_types import pm_types  # noqa: E402
for case in req.get('texts', []):
    store = ls.LocalizationStorage()
    objs = []
    for i, t in enumerate(case['store']):
        lt = pm_types.LocalizedText(t['text'], lang=t['lang'], ref=t['ref'], version=t['ver'],
                                    text_width=pm_types.LocalizedTextWidth(W[t['width']]) if t['width'] is not None else None)
        lt._verif_id = i
        objs.append(lt)
        store.add(lt)
    f = case['filter']
    try:
        got = store.filter_localized_texts(f['refs'] or None, f['version'], f['langs'] or None,
                                           [pm_types.LocalizedTextWidth(W[x]) for x in f['widths']] or None, f['lines'] or None)
        ids = [t._verif_id for t in got]
        # rank of the Python sort key used when widths AND lines are given
        keys = {}
        if f['widths'] and f['lines']:
            ks = []
            for o in objs:
                try:
                    ks.append((o.TextWidth * len(o.text.split('\n')), o._verif_id))
                except TypeError:
                    ks.append((None, o._verif_id))
            order = sorted({k for k, _ in ks if k is not None})
            keys = {i: (order.index(k) if k is not None else -1) for k, i in ks}
        out['texts'].append({'ids': ids, 'both_rank': keys, 'langs': sorted(store.get_supported_languages())})
    except Exception as ex:  # noqa: BLE001
        out['texts'].append({'error': repr(ex)[:300]})
print(json.dumps(out))
