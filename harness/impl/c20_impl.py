"""C20: query services.  (a) GetMdState / GetContextStates through the real consumer clients over the loop-back
transport for generated handle lists, (b) LocalizationStorage.filter_localized_texts / get_supported_languages for
generated stores and filters (storage driven directly), (c) HISTORIES on one LocalizationStorage: add() calls
interleaved with GetSupportedLanguages / GetLocalizedText requests that go through the real consumer
LocalizationServiceClient -> serialised request -> loop-back HTTP -> LocalizationService._on_get_... handler ->
serialised (validated) response -> parsed result."""
import json
import os
import sys

import mdibrun
mdibrun.preimport()
from world import World  # noqa: E402

from sdc11073.location import SdcLocation  # noqa: E402
from sdc11073.provider.porttypes import localizationservice as ls  # noqa: E402

req = json.load(sys.stdin)
out = {'worlds': [], 'texts': [], 'hist': []}

for wreq in req.get('worlds', []):
    w = World(mdib_file=wreq['mdib'])
    w.provider.contextstates_in_getmdib = wreq.get('flag', True)
    cons = w.add_consumer()
    pm = w.provider.mdib
    pm.pre_commit_handler = None
    pm.post_commit_handler = None
    # context states in every MDS: one per context descriptor, two for the first
    ctx_descr = sorted((d for d in pm.descriptions.objects if d.is_context_descriptor), key=lambda d: d.Handle)
    with pm.context_state_transaction() as tr:
        for i, d in enumerate(ctx_descr):
            tr.mk_context_state(d.Handle, f'cs{i}a', set_associated=True)
            if i % 2 == 0:
                tr.mk_context_state(d.Handle, f'cs{i}b')

    def tables():
        return ([{'ctx': False, 'handle': s.DescriptorHandle, 'dh': s.DescriptorHandle, 'mds': s.source_mds}
                 for s in list(pm.states.objects)],
                [{'ctx': True, 'handle': s.Handle, 'dh': s.DescriptorHandle, 'mds': s.source_mds}
                 for s in list(pm.context_states.objects)])

    def ask(queries):
        answers = []
        for q in queries:
            handles = q['handles']
            try:
                if q['kind'] == 'state':
                    r = cons.get_service_client.get_md_state(handles)
                    items = [[s.is_context_state, s.Handle if s.is_context_state else s.DescriptorHandle]
                             for s in r.result.MdState.State]
                else:
                    r = cons.context_service_client.get_context_states(handles)
                    items = [[True, s.Handle] for s in r.result.ContextState]
                answers.append({'q': q, 'items': items})
            except Exception as ex:  # noqa: BLE001
                answers.append({'q': q, 'error': repr(ex)[:300]})
        return answers

    def whole_mdib():
        """GetMdib / GetMdDescription (no handles) through the consumer client: the states / descriptor handles in the answer"""
        try:
            node = cons.get_service_client.get_mdib().p_msg.msg_node
            sts = [[e.get('Handle') is not None, e.get('Handle') or e.get('DescriptorHandle')]
                   for e in node.iter() if isinstance(e.tag, str) and e.tag.endswith('}State')
                   and e.getparent() is not None and e.getparent().tag.endswith('}MdState')]
            dn = cons.get_service_client.get_md_description().p_msg.msg_node
            dhs = sorted(e.get('Handle') for e in dn.iter() if isinstance(e.tag, str) and e.get('Handle') is not None)
            return {'states': sts, 'descriptors': dhs}
        except Exception as ex:  # noqa: BLE001
            return {'error': repr(ex)[:300]}

    states, cstates = tables()
    mds = sorted(d.Handle for d in pm.descriptions.objects if d.NODETYPE.localname == 'MdsDescriptor')
    res = {'mdib': wreq['mdib'], 'flag': wreq.get('flag', True), 'states': states, 'cstates': cstates, 'mds': mds,
           'all_handles': sorted(d.Handle for d in pm.descriptions.objects)}
    res['queries'] = ask(wreq['queries'])
    res['whole'] = whole_mdib()
    # phase 2: the MDIB changes between two batches of queries (further context states, one metric removed together
    # with its state); every answer has to follow the tables as they are at that moment
    targets = {getattr(d, 'OperationTarget', None) for d in pm.descriptions.objects}
    victims = sorted(d.Handle for d in pm.descriptions.objects
                     if d.NODETYPE.localname == 'NumericMetricDescriptor' and d.Handle not in targets
                     and not pm.descriptions.parent_handle.get(d.Handle))
    with pm.context_state_transaction() as tr:
        for i, d in enumerate(ctx_descr):
            if i % 2 == 1 or i == 0:
                tr.mk_context_state(d.Handle, f'cs{i}c')
    res['removed'] = victims[:1]
    if victims:
        with pm.descriptor_transaction() as tr:
            tr.remove_descriptor(victims[0])
    res['states2'], res['cstates2'] = tables()
    res['all_handles2'] = sorted(d.Handle for d in pm.descriptions.objects)
    res['queries2'] = ask(wreq.get('queries2', []))
    res['whole2'] = whole_mdib()
    out['worlds'].append(res)
    if wreq is not req['worlds'][-1] or req.get('hist'):
        w.stop()                     # the process ends with os._exit: the last world need not be shut down

W = ['xs', 's', 'm', 'l', 'xl', 'xxl']
from sdc11073.xml_types import pm_types  # noqa: E402
for case in req.get('texts', []):
    store = ls.LocalizationStorage()
    objs = []
    for i, t in enumerate(case['store']):
        lt = pm_types.LocalizedText(t['text'], lang=t['lang'], ref=t['ref'], version=t['ver'],
                                    text_width=pm_types.LocalizedTextWidth(W[t['width']]) if t['width'] is not None else None)
        lt._verif_id = i
        objs.append(lt)
        store.add(lt)
    f = case['filter']
    try:
        got = store.filter_localized_texts(f['refs'] or None, f['version'], f['langs'] or None,
                                           [pm_types.LocalizedTextWidth(W[x]) for x in f['widths']] or None, f['lines'] or None)
        ids = [t._verif_id for t in got]
        # rank of the Python sort key used when widths AND lines are given
        keys = {}
        if f['widths'] and f['lines']:
            ks = []
            for o in objs:
                try:
                    ks.append((o.TextWidth * len(o.text.split('\n')), o._verif_id))
                except TypeError:
                    ks.append((None, o._verif_id))
            order = sorted({k for k, _ in ks if k is not None})
            keys = {i: (order.index(k) if k is not None else -1) for k, i in ks}
        out['texts'].append({'ids': ids, 'both_rank': keys, 'langs': sorted(store.get_supported_languages())})
    except Exception as ex:  # noqa: BLE001
        out['texts'].append({'error': repr(ex)[:300]})

# ---------------------------------------------------------------- histories through the service handlers
if req.get('hist'):
    w = World()
    cons = w.add_consumer()
    svc = w.provider.hosted_services.localization_service
    client = cons.localization_service_client
    # the Python sort key of the widths+lines mode (TextWidth * n_o_l) for every (width, lines) pair
    out['area_keys'] = {f'{i},{n}': pm_types.LocalizedTextWidth(W[i]) * n for i in range(6) for n in range(1, 6)}

    def mk(t):
        return pm_types.LocalizedText(t['text'], lang=t['lang'], ref=t['ref'], version=t['ver'],
                                      text_width=pm_types.LocalizedTextWidth(W[t['width']]) if t['width'] is not None else None)

    for hcase in req['hist']:
        ops = hcase['ops']
        objs = {}

        def obj(t):
            # 'same' = index of an earlier text whose Python OBJECT is stored again
            if t.get('same') is not None and t['same'] in objs:
                return objs[t['same']]
            o = mk(t)
            objs[t['n']] = o
            return o
        start = 0
        if ops and ops[0]['op'] == 'add' and hcase.get('ctor'):
            svc.localization_storage = ls.LocalizationStorage([obj(t) for t in ops[0]['texts']])
            start = 1
        else:
            svc.localization_storage = ls.LocalizationStorage()
        answers = []
        for op in ops[start:]:
            n0 = len(w.net.log)
            try:
                if op['op'] == 'add':
                    w.provider.localization_storage.add(*[obj(t) for t in op['texts']])
                    continue
                if op['op'] == 'langs':
                    r = client.get_supported_languages()
                    ans = {'langs': [str(x) for x in r.result.Lang]}
                else:
                    f = op['filter']
                    r = client.get_localized_texts(f['refs'] or None, f['version'], f['langs'] or None,
                                                   [pm_types.LocalizedTextWidth(W[x]) for x in f['widths']] or None,
                                                   f['lines'] or None)
                    ans = {'texts': [[t.Ref, t.Lang, t.Version, None if t.TextWidth is None else str(t.TextWidth.value), t.text]
                                     for t in r.result.Text]}
            except Exception as ex:  # noqa: BLE001
                ans = {'error': repr(ex)[:300]}
            ex_ = w.net.log[n0:]
            ans['wire'] = len(ex_)
            ans['status'] = [e.status for e in ex_]
            ans['to_handler'] = all((b'GetSupportedLanguages' if op['op'] == 'langs' else b'GetLocalizedText') in e.decoded_body()
                                    for e in ex_)
            answers.append(ans)
        # what the storage really holds at the end (every entry, every version)
        final = [[t.Ref, t.Lang, t.Version, None if t.TextWidth is None else str(t.TextWidth.value), t.text]
                 for v in svc.localization_storage._localized_texts.values() for t in v]  # noqa: SLF001
        out['hist'].append({'answers': answers, 'final': final})
print(json.dumps(out))
sys.stdout.flush()
os._exit(0)
