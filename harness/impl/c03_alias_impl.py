"""C03 isolation stream: objects handed out by the MDIB (transaction getters, entity getters, transaction
results) are private copies at every nesting depth."""
from __future__ import annotations

import enum
import json
import sys
import traceback
from decimal import Decimal

import mdibrun
mdibrun.preimport()
from world import World  # noqa: E402

req = json.load(sys.stdin)


class Abort(Exception):
    pass


def paths_of(obj, prefix=(), depth=0):
    """all nested attribute paths of a container / xml type (scalar members and list members)"""
    out = []
    if depth > 4 or not hasattr(obj, 'sorted_container_properties'):
        return out
    for name, _ in obj.sorted_container_properties():
        try:
            v = getattr(obj, name)
        except Exception:  # noqa: BLE001
            continue
        p = prefix + (name,)
        if hasattr(v, 'sorted_container_properties'):
            out += paths_of(v, p, depth + 1)
        elif isinstance(v, list):
            out.append(p + ('[]',))
            for i, e in enumerate(v[:2]):
                if hasattr(e, 'sorted_container_properties'):
                    out += paths_of(e, p + (i,), depth + 1)
        elif v is not None and depth > 0:
            out.append(p)          # scalar member of a NESTED object (top level writes are the API itself)
    return out


def mutate(obj, path):
    """write through `path`; returns True if something was written"""
    cur = obj
    for step in path[:-1]:
        cur = cur[step] if isinstance(step, int) else getattr(cur, step)
    last = path[-1]
    if last == '[]':
        return False
    if path[-1] == '[]':
        return False
    v = getattr(cur, last)
    new = alt(v)
    if new is None:
        return False
    try:
        setattr(cur, last, new)
    except Exception:  # noqa: BLE001
        return False
    return True


def mutate_list(obj, path, valid_only=False):
    cur = obj
    for step in path[:-1]:
        cur = cur[step] if isinstance(step, int) else getattr(cur, step)
    if len(cur) > 0:
        cur.append(cur[0])
    elif valid_only:
        return False
    else:
        cur.append('verif-sentinel')
    return True


def alt(v):
    if isinstance(v, bool):
        return not v
    if isinstance(v, enum.Enum):
        ms = list(type(v))
        return ms[(ms.index(v) + 1) % len(ms)] if len(ms) > 1 else None
    if isinstance(v, int):
        return v + 1
    if isinstance(v, Decimal):
        return v + 1
    if isinstance(v, float):
        return v + 1.0
    if isinstance(v, str):
        return v + 'x'
    return None


def apply_path(obj, path, valid_only=False):
    return mutate_list(obj, path, valid_only) if path[-1] == '[]' else mutate(obj, path)


TX_FOR = [('is_realtime_sample_array_metric_state', 'rt_sample_state_transaction'),
          ('is_metric_state', 'metric_state_transaction'), ('is_alert_state', 'alert_state_transaction'),
          ('is_component_state', 'component_state_transaction'),
          ('is_operational_state', 'operational_state_transaction')]


def tx_name(state):
    for flag, name in TX_FOR:
        if getattr(state, flag, False):
            return name
    return None


def descr_results(pm, canon, results, rnd, budget):
    """what a descriptor transaction published (descr_created / descr_updated / descr_deleted and the states that go with
    them) must neither be the objects stored in the MDIB nor change through later transactions; writing into it must not
    change the MDIB"""
    import copy as _copy

    def snap_key():
        s = mdibrun.snapshot(pm, canon)
        return json.dumps({k: s[k] for k in ('ver', 'descrs', 'states', 'cstates')}, sort_keys=True)

    def stored_ids():
        return {id(o) for t in (pm.descriptions, pm.states, pm.context_states) for o in t.objects}

    channel = next(d for d in pm.descriptions.objects if d.NODETYPE.localname == 'ChannelDescriptor')
    metric_tpl = next(d for d in pm.descriptions.objects if d.NODETYPE.localname == 'NumericMetricDescriptor')
    vmd = pm.descriptions.handle.get_one(channel.parent_handle)

    def new_descr(tpl, handle, parent):
        d = _copy.deepcopy(tpl)
        d.Handle, d.parent_handle, d.DescriptorVersion = handle, parent, 0
        d.set_source_mds(None)
        return d

    def published(kind):
        tr = pm.transaction
        objs = [('descr_created', o) for o in tr.descr_created] + [('descr_updated', o) for o in tr.descr_updated] + \
               [('descr_deleted', o) for o in tr.descr_deleted] + [('states', o) for o in tr.all_states()]
        return [(f'{kind}:{name}', o) for name, o in objs]

    steps = []
    # 1. create a channel with a metric below it
    with pm.descriptor_transaction() as tr:
        c = new_descr(channel, 'verif_ch', vmd.Handle)
        tr.add_descriptor(c, state_container=pm.data_model.mk_state_container(c))
        m = new_descr(metric_tpl, 'verif_m1', 'verif_ch')
        tr.add_descriptor(m, state_container=pm.data_model.mk_state_container(m))
    steps.append(published('create'))
    # 2. add a second child (bumps verif_ch), update verif_m1
    with pm.descriptor_transaction() as tr:
        m2 = new_descr(metric_tpl, 'verif_m2', 'verif_ch')
        tr.add_descriptor(m2, state_container=pm.data_model.mk_state_container(m2))
        d = tr.get_descriptor('verif_m1')
        mdibrun.set_payload(d, 3, pm.data_model.pm_types)
    steps.append(published('add+update'))
    held = [(name, o, mdibrun.canon_value(o)) for st in steps for name, o in st]
    ids = stored_ids()
    for name, o, _v in held:
        if id(o) in ids:
            results.append({'getter': f'transaction result {name}', 'handle': getattr(o, 'Handle', None) or o.DescriptorHandle,
                            'path': ['<the object itself is the one stored in the MDIB>'], 'wrote': True, 'mdib_changed': True})
    # 3. later transactions: update, add below, remove
    with pm.descriptor_transaction() as tr:
        d = tr.get_descriptor('verif_ch')
        mdibrun.set_payload(d, 5, pm.data_model.pm_types)
        m3 = new_descr(metric_tpl, 'verif_m3', 'verif_ch')
        tr.add_descriptor(m3, state_container=pm.data_model.mk_state_container(m3))
    with pm.metric_state_transaction() as tr:
        s = tr.get_state('verif_m1')
        mdibrun.set_payload(s, 9, pm.data_model.pm_types)
    with pm.descriptor_transaction() as tr:
        tr.remove_descriptor('verif_m2')
    for name, o, v in held:
        now = mdibrun.canon_value(o)
        results.append({'getter': f'transaction result {name} vs later commits', 'handle': getattr(o, 'Handle', None) or o.DescriptorHandle,
                        'path': ['<whole object>'], 'wrote': True, 'mdib_changed': now != v})
    # 4. writing into a published object never reaches the MDIB
    for name, o, _v in held:
        paths = paths_of(o)
        rnd.shuffle(paths)
        for path in paths[:max(2, budget // 3)]:
            before = snap_key()
            try:
                wrote = apply_path(o, path)
            except Exception:  # noqa: BLE001
                continue
            results.append({'getter': f'transaction result {name} (written outside a transaction)',
                            'handle': getattr(o, 'Handle', None) or o.DescriptorHandle, 'path': [str(p) for p in path],
                            'wrote': wrote, 'mdib_changed': snap_key() != before})
            if wrote and path[-1] == '[]':          # take the probe element out again (a shared list would keep it)
                cur = o
                for step in path[:-1]:
                    cur = cur[step] if isinstance(step, int) else getattr(cur, step)
                cur.pop()
    with pm.descriptor_transaction() as tr:
        tr.remove_descriptor('verif_ch')


def reachable(root):
    """{id: (path, object)} of every mutable object reachable from a container (declared members and other
    attributes; lists, dicts, lxml elements).  Not followed, shared by design: state.descriptor_container and the
    element the observable `node` points to."""
    from lxml import etree
    out, todo = {}, [('', root)]
    while todo:
        p, v = todo.pop()
        if v is None or isinstance(v, (str, bytes, int, float, bool, Decimal, enum.Enum, etree.QName, type)):
            continue
        if isinstance(v, tuple):
            todo += [(f'{p}[{i}]', x) for i, x in enumerate(v)]
            continue
        struct = hasattr(v, 'sorted_container_properties')
        observable = type(v).__name__ == '_ObservableValue'
        if not (struct or observable or isinstance(v, (list, dict, set, etree._Element))):  # noqa: SLF001
            continue
        if id(v) in out:
            continue
        out[id(v)] = (p, v)
        if struct:
            names = {getattr(prop, '_local_var_name', None): n for n, prop in v.sorted_container_properties()}
            todo += [(f'{p}.{names.get(k, k)}', x) for k, x in v.__dict__.items() if k != 'descriptor_container']
        elif observable:
            todo.append((p + '._observers', v._observers))  # noqa: SLF001
        elif isinstance(v, (list, set)):
            todo += [(f'{p}[{i}]', x) for i, x in enumerate(v)]
        elif isinstance(v, dict):
            todo += [(f'{p}[{k if isinstance(k, str) else type(k).__name__}]', x) for k, x in v.items()]
    return out


def stale_entity_results(pm, canon, results, rnd, budget, handles):
    """entities that are OLDER than the mdib and then refreshed with update(): transactions add / change / remove
    context states and change single states after the entity was read; after entity.update()
      (a) no object reachable from the entity is an object reachable from the mdib tables (identity, any depth),
      (b) nested writes, top-level writes and in-place list operations on the refreshed entity leave the MDIB unchanged."""
    pm_types = pm.data_model.pm_types

    def snap_key():
        s = mdibrun.snapshot(pm, canon)
        return json.dumps({k: s[k] for k in ('ver', 'descrs', 'states', 'cstates')}, sort_keys=True)

    def label(c):
        return f'{type(c).__name__}({getattr(c, "Handle", None) or getattr(c, "DescriptorHandle", None)})'

    ctx_descrs = [d.Handle for d in pm.descriptions.objects if d.is_context_descriptor
                  and d.NODETYPE.localname in ('PatientContextDescriptor', 'LocationContextDescriptor')]
    singles = [h for h in handles if pm.states.descriptor_handle.get_one(h, allow_none=True) is not None
               and tx_name(pm.states.descriptor_handle.get_one(h)) is not None][:3]
    # states that exist when the entities are read: one that will be changed, one that will be removed
    doomed, kept = {}, {}
    for h in ctx_descrs:
        with pm.context_state_transaction() as tr:
            doomed[h] = tr.mk_context_state(h, f'verif_doomed_{h}').Handle
            kept[h] = tr.mk_context_state(h, f'verif_kept_{h}').Handle
    old = {h: pm.entities.by_handle(h) for h in ctx_descrs + singles}           # ---- the entities are read NOW
    known = {h: set(old[h].states) for h in ctx_descrs}
    # ---- the mdib moves on
    added = {}
    for h in ctx_descrs:
        with pm.context_state_transaction() as tr:                               # new state + changed state
            st = tr.mk_context_state(h, f'verif_new_{h}')
            st.Identification = [pm_types.InstanceIdentifier('urn:verif', extension_string='new')]
            st.Validator = [pm_types.InstanceIdentifier('urn:verif', extension_string='validator')]
            added[h] = st.Handle
            ch = tr.get_context_state(kept[h])
            ch.Identification = [pm_types.InstanceIdentifier('urn:verif', extension_string='changed')]
        remover = pm.entities.by_handle(h)                                       # removed state
        remover.states.pop(doomed[h])
        with pm.context_state_transaction() as tr:
            tr.write_entity(remover, [doomed[h]])
    for h in singles:
        with getattr(pm, tx_name(pm.states.descriptor_handle.get_one(h)))() as tr:
            mdibrun.set_payload(tr.get_state(h), 17, pm_types)
    # ---- refresh
    for h, e in old.items():
        kind = 'multi-state' if e.is_multi_state else 'single-state'
        getter = f'entity.update of a {kind} entity read before later commits'
        try:
            e.update()
        except Exception:  # noqa: BLE001
            results.append({'getter': getter, 'handle': h, 'path': ['update()'], 'error': traceback.format_exc()[-300:]})
            continue
        if e.is_multi_state and (doomed[h] in e.states or added[h] not in e.states):
            results.append({'getter': getter, 'handle': h, 'path': [f'states = {sorted(e.states)}'], 'wrote': True,
                            'error': f'the refreshed entity does not follow the mdib (new {added[h]}, removed {doomed[h]})'})
        parts = [('descriptor', e.descriptor)]
        parts += [(f'states[{k}]' + (' (new since the entity was read)' if k not in known[h] else ''), v)
                  for k, v in e.states.items()] if e.is_multi_state else [('state', e.state)]
        # (a) identity at any depth
        inside = {}
        for table in (pm.descriptions, pm.states, pm.context_states):
            for o in table.objects:
                for i, (p, v) in reachable(o).items():
                    inside.setdefault(i, (label(o), p, v))
        for pname, part in parts:
            hits = sorted(((p, inside[i]) for i, (p, v) in reachable(part).items() if i in inside), key=lambda t: len(t[0]))
            for p, (ol, op_, _v) in hits[:1]:
                results.append({'getter': getter, 'handle': h,
                                'path': [f'{pname}{p} IS the object {ol}{op_} stored in the MDIB ({len(hits)} shared object(s))'],
                                'wrote': True, 'mdib_changed': True})
        # (b) writes through the refreshed entity
        for pname, part in parts:
            top = [(n,) for n, _ in part.sorted_container_properties()
                   if n not in ('Handle', 'DescriptorHandle') and alt(getattr(part, n, None)) is not None]
            rnd.shuffle(top)
            paths = paths_of(part)
            rnd.shuffle(paths)
            for path in top[:2] + paths[:max(2, budget // 2)]:
                before = snap_key()
                try:
                    wrote = apply_path(part, path)
                except Exception:  # noqa: BLE001
                    continue
                results.append({'getter': getter, 'handle': h, 'path': [pname] + [str(p) for p in path], 'wrote': wrote,
                                'mdib_changed': snap_key() != before})
                if wrote and path[-1] == '[]':          # second in-place operation: take the probe element out again
                    cur = part
                    for step in path[:-1]:
                        cur = cur[step] if isinstance(step, int) else getattr(cur, step)
                    before = snap_key()
                    cur.pop()
                    results.append({'getter': getter, 'handle': h, 'path': [pname] + [str(p) for p in path[:-1]] + ['pop()'],
                                    'wrote': True, 'mdib_changed': snap_key() != before})


def periodic_results(results, rnd, budget, mode):
    """what is waiting for / goes into the next PERIODIC report must not follow writes of the application into the objects
    it was handed: a started provider with periodic reports (mode 'fixed interval': start_all(periodic_reports_interval);
    mode 'Retrievability=Periodic': the retrievability loop) on a virtual clock; transactions of every state kind commit;
    observers of every *_by_handle observable and the holder of the `transaction` result then write nested and top-level
    values into what they were handed; then the periodic thread runs one period and every state of every Periodic*Report on
    the wire is compared with the value the MDIB held right after the commit that produced that StateVersion."""
    import c04_common as cc
    from sdc11073 import observableproperties as properties
    from sdc11073.xml_types.pm_types import Retrievability, RetrievabilityInfo, RetrievabilityMethod
    gate = cc.Gate()
    gate.install()
    w = World(start=False)
    pm = w.provider.mdib
    pm.pre_commit_handler = None
    pm.post_commit_handler = None
    canon = mdibrun.Canon()
    nsh = pm.data_model.ns_helper
    pmt = pm.data_model.pm_types
    picks = {}          # transaction name -> descriptor handles
    for st in sorted(pm.states.objects, key=lambda x: x.DescriptorHandle):
        name = tx_name(st)
        if name and name != 'rt_sample_state_transaction' and len(picks.setdefault(name, [])) < 2:
            picks[name].append(st.DescriptorHandle)
    ctx_descr = 'PC.mds0'
    if mode != 'fixed interval':
        for h in [h for hs in picks.values() for h in hs] + [ctx_descr]:
            descr = pm.descriptions.handle.get_one(h)
            retr_list = descr.get_retrievability()
            if len(retr_list) == 0:
                retr_list.append(Retrievability())
            retr_list[0].By.append(RetrievabilityInfo(RetrievabilityMethod.PERIODIC, update_period=1.0))
            descr.set_retrievability(retr_list)
        pm.xtra.update_retrievability_lists()
    w.provider.start_all(start_rtsample_loop=False, shared_http_server=w.provider_server,
                         periodic_reports_interval=1.0 if mode == 'fixed interval' else None)
    getter = f'periodic report [{mode}] after writes into'
    if not gate.wait_arrival(1):
        results.append({'getter': 'harness(periodic)', 'handle': '', 'path': [], 'error': 'the periodic thread did not start'})
        return
    cons = w.add_consumer()
    gate.run(1)                                   # the start delay; the thread now waits for the end of the first period
    handed = []                                   # (source, object) of the running commit

    def collector(source):
        def cb(value):
            if isinstance(value, dict):
                handed.extend((source, o) for o in value.values())
            elif value is not None:
                handed.extend((source, o) for o in value.all_states())
        return cb
    properties.strongbind(pm, transaction=collector('transaction result'), metrics_by_handle=collector('metrics_by_handle'),
                          alert_by_handle=collector('alert_by_handle'), component_by_handle=collector('component_by_handle'),
                          context_by_handle=collector('context_by_handle'), operation_by_handle=collector('operation_by_handle'))

    def snap_key():
        s = mdibrun.snapshot(pm, canon)
        return json.dumps({k: s[k] for k in ('ver', 'descrs', 'states', 'cstates')}, sort_keys=True)

    committed = {}      # (key, StateVersion) -> canonical state the MDIB held right after that commit
    written = {}        # key -> [(source, path)] written into handed-out objects since the last period
    n = 20
    for rnd_no in range(2):
        for name, hs in list(picks.items()) + [('context_state_transaction', ['p1'])]:
            del handed[:]
            n += 1
            with getattr(pm, name)() as tr:
                for h in hs:
                    if name == 'context_state_transaction':
                        s = tr.get_context_state(h) if pm.context_states.handle.get_one(h, allow_none=True) is not None \
                            else tr.mk_context_state(ctx_descr, h, set_associated=True)
                    else:
                        s = tr.get_state(h)
                    mdibrun.set_payload(s, n, pmt)
            for h in hs:
                cur = pm.context_states.handle.get_one(h) if name == 'context_state_transaction' \
                    else pm.states.descriptor_handle.get_one(h)
                key = ('c:' + h) if name == 'context_state_transaction' else h
                committed[(key, cur.StateVersion)] = canon.any_state(cur, nsh)
            # the application writes into everything this commit handed to it
            before = snap_key()
            seen = set()
            sources = {}
            for source, o in handed:
                sources.setdefault(id(o), set()).add(source)
            for _source, o in list(handed):
                if id(o) in seen:
                    continue
                seen.add(id(o))
                source = ' + '.join(sorted(sources[id(o)]))
                key = ('c:' + o.Handle) if o.is_context_state else o.DescriptorHandle
                paths = paths_of(o)
                rnd.shuffle(paths)
                for path in paths[:max(2, budget // 2)]:
                    try:
                        if apply_path(o, path, valid_only=True):
                            written.setdefault(key, []).append((source, [str(p) for p in path]))
                    except Exception:  # noqa: BLE001
                        continue
                try:
                    mdibrun.set_payload(o, 424242, pmt)
                    written.setdefault(key, []).append((source, ['<payload member, top level>']))
                except Exception:  # noqa: BLE001
                    pass
            results.append({'getter': f'MDIB [{mode}] after writes into *_by_handle / transaction result objects of',
                            'handle': ','.join(hs), 'path': ['<all written paths>'], 'wrote': bool(seen),
                            'mdib_changed': snap_key() != before})
        n0 = len(w.net.log)
        if not gate.run(1):
            results.append({'getter': 'harness(periodic)', 'handle': '', 'path': [],
                            'error': 'the periodic thread did not complete its period (it may have died)'})
            break
        reports = [r for r in cc.arrivals(w, cons, canon, start=n0) if r['kind'] in cc.PERIODIC or r['kind'] == 'UNPARSABLE']
        if not reports:
            results.append({'getter': 'harness(periodic)', 'handle': '', 'path': [], 'error': f'no periodic report was sent [{mode}]'})
        for r in reports:
            if r['kind'] == 'UNPARSABLE':
                results.append({'getter': getter, 'handle': '', 'path': ['<report>'], 'error': 'periodic report not parseable: ' + r.get('err', '')})
                continue
            for part in r['parts']:
                for st in part['states']:
                    ctx_state = len(st) > 5
                    key = ('c:' + str(st[0])) if ctx_state else st[0]
                    want = committed.get((key, st[2]))
                    if want is None:
                        continue              # a state (version) this probe did not commit: nothing to compare with
                    srcs = written.get(key, [])
                    results.append({'getter': f'{getter} {" / ".join(sorted({s for s, _ in srcs})) or "nothing"}', 'handle': key,
                                    'path': [f'{r["kind"]}: StateVersion {st[2]}'] + ['.'.join(p) for _, p in srcs[:4]],
                                    'wrote': bool(srcs), 'mdib_changed': st != want,
                                    'reported': st, 'committed': want})
        written.clear()
    w.stop()



def main():
    w = World()
    pm = w.provider.mdib
    pm.pre_commit_handler = None
    pm.post_commit_handler = None
    canon = mdibrun.Canon()
    rng_handles = req['handles']
    results = []
    budget = req.get('max_paths', 6)

    def snap_key():
        s = mdibrun.snapshot(pm, canon)
        return json.dumps({k: s[k] for k in ('ver', 'descrs', 'states', 'cstates')}, sort_keys=True)

    # make sure there are context states to look at
    with pm.context_state_transaction() as tr:
        st = tr.mk_context_state('PC.mds0', 'p1', set_associated=True)
        st.CoreData.Givenname = 'Ann'
    w.provider.set_location(__import__('sdc11073.location', fromlist=['SdcLocation']).SdcLocation(fac='f', poc='p', bed='b'))
    import random
    rnd = random.Random(req.get('seed', 1))
    n_written = 0
    def one_handle(h):
        nonlocal n_written
        st = pm.states.descriptor_handle.get_one(h, allow_none=True)
        d = pm.descriptions.handle.get_one(h, allow_none=True)
        if st is None or d is None or tx_name(st) is None:
            return
        # make nested members exist
        with getattr(pm, tx_name(st))() as tr:
            s = tr.get_state(h)
            mdibrun.set_payload(s, 7, pm.data_model.pm_types)
        getters = [('tx.get_state', lambda tr: tr.get_state(h), tx_name(st)),
                   ('descr_tx.get_descriptor', lambda tr: tr.get_descriptor(h), 'descriptor_transaction'),
                   ('entities.by_handle.state', lambda tr: pm.entities.by_handle(h).state, tx_name(st)),
                   ('entities.by_handle.descriptor', lambda tr: pm.entities.by_handle(h).descriptor, tx_name(st))]
        for gname, getter, txn in getters:
            before = snap_key()
            probe = None
            try:
                with getattr(pm, txn)() as tr:
                    probe = getter(tr)
                    raise Abort
            except Abort:
                pass
            paths = paths_of(probe)
            rnd.shuffle(paths)
            for path in paths[:budget]:
                wrote = False
                try:
                    with getattr(pm, txn)() as tr:
                        obj = getter(tr)
                        wrote = apply_path(obj, path)
                        raise Abort
                except Abort:
                    pass
                except Exception:  # noqa: BLE001
                    results.append({'getter': gname, 'handle': h, 'path': list(path), 'error': traceback.format_exc()[-300:]})
                    continue
                after = snap_key()
                n_written += wrote
                results.append({'getter': gname, 'handle': h, 'path': [str(p) for p in path], 'wrote': wrote,
                                'mdib_changed': after != before})
                if after != before:
                    before = after
        # objects handed out by a transaction that then COMMITTED: they stay private, writing them later (outside any
        # transaction) must not reach the MDIB
        for gname, txn, getter in (('tx.get_state (kept after the commit)', tx_name(st), lambda tr: tr.get_state(h)),
                                   ('descr_tx.get_descriptor (kept after the commit)', 'descriptor_transaction',
                                    lambda tr: tr.get_descriptor(h))):
            with getattr(pm, txn)() as tr:
                kept = getter(tr)
                mdibrun.set_payload(kept, 13, pm.data_model.pm_types)
            paths = paths_of(kept)
            rnd.shuffle(paths)
            for path in paths[:max(2, budget // 2)]:
                before = snap_key()
                try:
                    wrote = apply_path(kept, path)
                except Exception:  # noqa: BLE001
                    continue
                results.append({'getter': gname, 'handle': h, 'path': [str(p) for p in path], 'wrote': wrote,
                                'mdib_changed': snap_key() != before})
                if wrote and path[-1] == '[]':
                    cur = kept
                    for step in path[:-1]:
                        cur = cur[step] if isinstance(step, int) else getattr(cur, step)
                    cur.pop()
        # published copies: the result of an earlier commit must not change through a later transaction
        txn = tx_name(st)
        with getattr(pm, txn)() as tr:
            s = tr.get_state(h)
            mdibrun.set_payload(s, 11, pm.data_model.pm_types)
        published = list(pm.transaction.all_states())
        pub_before = [mdibrun.canon_value(x) for x in published]
        paths = paths_of(published[0]) if published else []
        rnd.shuffle(paths)
        for path in paths[:budget]:
            try:
                with getattr(pm, txn)() as tr:
                    obj = tr.get_state(h)
                    wrote = apply_path(obj, path, valid_only=True)
                    if path[-1] in ('Mode', 'Validity', 'Qi'):      # keep the committed value schema-valid
                        pass
            except Exception:  # noqa: BLE001
                results.append({'getter': 'published', 'handle': h, 'path': [str(p) for p in path], 'error': traceback.format_exc()[-300:]})
                continue
            pub_after = [mdibrun.canon_value(x) for x in published]
            results.append({'getter': 'published-result-vs-later-commit', 'handle': h, 'path': [str(p) for p in path],
                            'wrote': wrote, 'mdib_changed': pub_after != pub_before})
            pub_before = pub_after
    for h in rng_handles:
      try:
        one_handle(h)
      except Exception:  # noqa: BLE001
        results.append({'getter': 'harness', 'handle': h, 'path': [], 'error': traceback.format_exc()[-400:]})

    # results of descriptor transactions: the published TransactionResult must hold private copies
    try:
        descr_results(pm, canon, results, rnd, budget)
    except Exception:  # noqa: BLE001
        results.append({'getter': 'harness(descr results)', 'handle': '', 'path': [], 'error': traceback.format_exc()[-400:]})

    # entities that are older than the mdib and then refreshed
    try:
        stale_entity_results(pm, canon, results, rnd, budget, rng_handles)
    except Exception:  # noqa: BLE001
        results.append({'getter': 'harness(stale entities)', 'handle': '', 'path': [], 'error': traceback.format_exc()[-400:]})

    # context states
    for ch in ('p1',):
        before = snap_key()
        probe = pm.context_states.handle.get_one(ch)
        for path in paths_of(probe)[:budget]:
            try:
                with pm.context_state_transaction() as tr:
                    obj = tr.get_context_state(ch)
                    wrote = apply_path(obj, path)
                    raise Abort
            except Abort:
                pass
            after = snap_key()
            results.append({'getter': 'ctx_tx.get_context_state', 'handle': ch, 'path': [str(p) for p in path],
                            'wrote': wrote, 'mdib_changed': after != before})
            before = after
    w.stop()
    # pending / collected periodic reports vs writes of the application into what a commit handed to it
    for mode in ('fixed interval', 'Retrievability=Periodic'):
        try:
            periodic_results(results, rnd, budget, mode)
        except Exception:  # noqa: BLE001
            results.append({'getter': 'harness(periodic reports)', 'handle': mode, 'path': [], 'error': traceback.format_exc()[-400:]})
    print(json.dumps({'results': results, 'written': n_written}))


main()
