"""C03 isolation stream: objects handed out by the MDIB (transaction getters, entity getters, transaction
results) are private copies at every nesting depth."""
from __future__ import annotations

import enum
import json
import sys
import traceback
from decimal import Decimal

import mdibrun
mdibrun.preimport()
from world import World  # noqa: E402

req = json.load(sys.stdin)


class Abort(Exception):
    pass


def paths_of(obj, prefix=(), depth=0):
    """all nested attribute paths of a container / xml type (scalar members and list members)"""
    out = []
    if depth > 4 or not hasattr(obj, 'sorted_container_properties'):
        return out
    for name, _ in obj.sorted_container_properties():
        try:
            v = getattr(obj, name)
        except Exception:  # noqa: BLE001
            continue
        p = prefix + (name,)
        if hasattr(v, 'sorted_container_properties'):
            out += paths_of(v, p, depth + 1)
        elif isinstance(v, list):
            out.append(p + ('[]',))
            for i, e in enumerate(v[:2]):
                if hasattr(e, 'sorted_container_properties'):
                    out += paths_of(e, p + (i,), depth + 1)
        elif v is not None and depth > 0:
            out.append(p)          # scalar member of a NESTED object (top level writes are the API itself)
    return out


def mutate(obj, path):
    """write through `path`; returns True if something was written"""
    cur = obj
    for step in path[:-1]:
        cur = cur[step] if isinstance(step, int) else getattr(cur, step)
    last = path[-1]
    if last == '[]':
        return False
    if path[-1] == '[]':
        return False
    v = getattr(cur, last)
    new = alt(v)
    if new is None:
        return False
    try:
        setattr(cur, last, new)
    except Exception:  # noqa: BLE001
        return False
    return True


def mutate_list(obj, path, valid_only=False):
    cur = obj
    for step in path[:-1]:
        cur = cur[step] if isinstance(step, int) else getattr(cur, step)
    if len(cur) > 0:
        cur.append(cur[0])
    elif valid_only:
        return False
    else:
        cur.append('verif-sentinel')
    return True


def alt(v):
    if isinstance(v, bool):
        return not v
    if isinstance(v, enum.Enum):
        ms = list(type(v))
        return ms[(ms.index(v) + 1) % len(ms)] if len(ms) > 1 else None
    if isinstance(v, int):
        return v + 1
    if isinstance(v, Decimal):
        return v + 1
    if isinstance(v, float):
        return v + 1.0
    if isinstance(v, str):
        return v + 'x'
    return None


def apply_path(obj, path, valid_only=False):
    return mutate_list(obj, path, valid_only) if path[-1] == '[]' else mutate(obj, path)


TX_FOR = [('is_realtime_sample_array_metric_state', 'rt_sample_state_transaction'),
          ('is_metric_state', 'metric_state_transaction'), ('is_alert_state', 'alert_state_transaction'),
          ('is_component_state', 'component_state_transaction'),
          ('is_operational_state', 'operational_state_transaction')]


def tx_name(state):
    for flag, name in TX_FOR:
        if getattr(state, flag, False):
            return name
    return None


def main():
    w = World()
    pm = w.provider.mdib
    pm.pre_commit_handler = None
    pm.post_commit_handler = None
    canon = mdibrun.Canon()
    rng_handles = req['handles']
    results = []
    budget = req.get('max_paths', 6)

    def snap_key():
        s = mdibrun.snapshot(pm, canon)
        return json.dumps({k: s[k] for k in ('ver', 'descrs', 'states', 'cstates')}, sort_keys=True)

    # make sure there are context states to look at
    with pm.context_state_transaction() as tr:
        st = tr.mk_context_state('PC.mds0', 'p1', set_associated=True)
        st.CoreData.Givenname = 'Ann'
    w.provider.set_location(__import__('sdc11073.location', fromlist=['SdcLocation']).SdcLocation(fac='f', poc='p', bed='b'))
    import random
    rnd = random.Random(req.get('seed', 1))
    n_written = 0
    def one_handle(h):
        nonlocal n_written
        st = pm.states.descriptor_handle.get_one(h, allow_none=True)
        d = pm.descriptions.handle.get_one(h, allow_none=True)
        if st is None or d is None or tx_name(st) is None:
            return
        # make nested members exist
        with getattr(pm, tx_name(st))() as tr:
            s = tr.get_state(h)
            mdibrun.set_payload(s, 7, pm.data_model.pm_types)
        getters = [('tx.get_state', lambda tr: tr.get_state(h), tx_name(st)),
                   ('descr_tx.get_descriptor', lambda tr: tr.get_descriptor(h), 'descriptor_transaction'),
                   ('entities.by_handle.state', lambda tr: pm.entities.by_handle(h).state, tx_name(st)),
                   ('entities.by_handle.descriptor', lambda tr: pm.entities.by_handle(h).descriptor, tx_name(st))]
        for gname, getter, txn in getters:
            before = snap_key()
            probe = None
            try:
                with getattr(pm, txn)() as tr:
                    probe = getter(tr)
                    raise Abort
            except Abort:
                pass
            paths = paths_of(probe)
            rnd.shuffle(paths)
            for path in paths[:budget]:
                wrote = False
                try:
                    with getattr(pm, txn)() as tr:
                        obj = getter(tr)
                        wrote = apply_path(obj, path)
                        raise Abort
                except Abort:
                    pass
                except Exception:  # noqa: BLE001
                    results.append({'getter': gname, 'handle': h, 'path': list(path), 'error': traceback.format_exc()[-300:]})
                    continue
                after = snap_key()
                n_written += wrote
                results.append({'getter': gname, 'handle': h, 'path': [str(p) for p in path], 'wrote': wrote,
                                'mdib_changed': after != before})
                if after != before:
                    before = after
        # published copies: the result of an earlier commit must not change through a later transaction
        txn = tx_name(st)
        with getattr(pm, txn)() as tr:
            s = tr.get_state(h)
            mdibrun.set_payload(s, 11, pm.data_model.pm_types)
        published = list(pm.transaction.all_states())
        pub_before = [mdibrun.canon_value(x) for x in published]
        paths = paths_of(published[0]) if published else []
        rnd.shuffle(paths)
        for path in paths[:budget]:
            try:
                with getattr(pm, txn)() as tr:
                    obj = tr.get_state(h)
                    wrote = apply_path(obj, path, valid_only=True)
                    if path[-1] in ('Mode', 'Validity', 'Qi'):      # keep the committed value schema-valid
                        pass
            except Exception:  # noqa: BLE001
                results.append({'getter': 'published', 'handle': h, 'path': [str(p) for p in path], 'error': traceback.format_exc()[-300:]})
                continue
            pub_after = [mdibrun.canon_value(x) for x in published]
            results.append({'getter': 'published-result-vs-later-commit', 'handle': h, 'path': [str(p) for p in path],
                            'wrote': wrote, 'mdib_changed': pub_after != pub_before})
            pub_before = pub_after
    for h in rng_handles:
      try:
        one_handle(h)
      except Exception:  # noqa: BLE001
        results.append({'getter': 'harness', 'handle': h, 'path': [], 'error': traceback.format_exc()[-400:]})

    # context states
    for ch in ('p1',):
        before = snap_key()
        probe = pm.context_states.handle.get_one(ch)
        for path in paths_of(probe)[:budget]:
            try:
                with pm.context_state_transaction() as tr:
                    obj = tr.get_context_state(ch)
                    wrote = apply_path(obj, path)
                    raise Abort
            except Abort:
                pass
            after = snap_key()
            results.append({'getter': 'ctx_tx.get_context_state', 'handle': ch, 'path': [str(p) for p in path],
                            'wrote': wrote, 'mdib_changed': after != before})
            before = after
    w.stop()
    print(json.dumps({'results': results, 'written': n_written}))


main()
