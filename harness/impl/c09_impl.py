"""Implementation side of C09.

stdin: {"cons": [events...], "prov": [cases...], "conc": {...}}   (every key optional)
  cons : the real consumer OperationsManager driven with real parsed messages (c09_lib.ManagerDriver)
  prov : a real provider + 2 real consumers on the loop-back transport (harness/world.py); requests go through
         the real service clients, responses and OperationInvokedReports are read from the wire log
  conc : several consumer threads calling operations concurrently
  sched: call_operation and on_operation_invoked_report in real threads under an explicit scheduler that enumerates
         every interleaving at the granularity of lock acquisitions and accesses to the shared buffer / table
The SCO worker is a thread; it is stepped deterministically: the handler of every queued operation waits at
a gate that the harness opens with a 'finish' op, and the harness waits (condition variable, no sleeps) until
the worker has reached its next stable point."""
from __future__ import annotations

import collections
import gzip
import http.client
import io
import json
import logging
import queue
import sys
import threading
import types

logging.disable(logging.CRITICAL)

import c09_lib  # noqa: E402
from c09_lib import ERRS, STATES  # noqa: E402
from lxml import etree  # noqa: E402

req_in = json.load(sys.stdin)

MSG_NS = 'http://standards.ieee.org/downloads/11073/11073-10207-2017/message'
S12_NS = 'http://www.w3.org/2003/05/soap-envelope'


# ----------------------------------------------------------------------------- wire parsing
def _decode(headers, body: bytes) -> bytes:
    enc = (headers.get('Content-Encoding') or '').strip().lower()
    if enc in ('', 'identity'):
        return body
    if enc == 'gzip':
        return gzip.decompress(body)
    from sdc11073.httpserver.compression import CompressionHandler
    return CompressionHandler.decompress_payload(enc, body)


def request_body(ex) -> bytes:
    head, _, body = ex.request.partition(b'\r\n\r\n')
    headers = http.client.parse_headers(io.BytesIO(head.split(b'\r\n', 1)[1] + b'\r\n\r\n'))
    if (headers.get('Transfer-Encoding') or '').lower() == 'chunked':
        out, rest = b'', body
        while rest:
            size, _, rest = rest.partition(b'\r\n')
            n = int(size.split(b';')[0], 16)
            if n == 0:
                break
            out, rest = out + rest[:n], rest[n + 2:]
        body = out
    return _decode(headers, body)


class _Sock:
    def __init__(self, data):
        self._f = io.BytesIO(data)

    def makefile(self, *a, **k):
        return self._f


def response_body(ex):
    r = http.client.HTTPResponse(_Sock(ex.response), method='POST')
    r.begin()
    return r.status, _decode(r.headers, r.read())


def is_operation_request(ex) -> bool:
    try:
        return b'OperationHandleRef' in request_body(ex)
    except Exception:  # noqa: BLE001
        return False


def info_of(node):
    """InvocationInfo element -> [id, state code, error code, has message]"""
    def txt(name):
        e = node.find(f'{{{MSG_NS}}}{name}')
        return None if e is None else e.text
    err = txt('InvocationError')
    return [int(txt('TransactionId')), STATES.index(txt('InvocationState')), ERRS.index(err),
            1 if node.find(f'{{{MSG_NS}}}InvocationErrorMessage') is not None else 0]


def parse_response(ex):
    status, body = response_body(ex)
    if status != 200:
        return [0]
    root = etree.fromstring(body)
    payload = root.find(f'{{{S12_NS}}}Body')[0]
    inf = payload.find(f'{{{MSG_NS}}}InvocationInfo')
    if inf is None:
        return [0]
    return [1] + info_of(inf)


def parse_report(ex, op_index):
    """-> list of parts [id, st, err, msg, op, tgt] or None when the exchange is not an OperationInvokedReport"""
    if b'OperationInvokedReport' not in ex.request and b'Content-Encoding' not in ex.request:
        return None
    try:
        body = request_body(ex)
    except Exception:  # noqa: BLE001
        return None
    if b'OperationInvokedReport' not in body:
        return None
    root = etree.fromstring(body)
    payload = root.find(f'{{{S12_NS}}}Body')[0]
    if etree.QName(payload).localname != 'OperationInvokedReport':
        return None
    parts = []
    for rp in payload.findall(f'{{{MSG_NS}}}ReportPart'):
        inf = info_of(rp.find(f'{{{MSG_NS}}}InvocationInfo'))
        parts.append(inf + [op_index.get(rp.get('OperationHandleRef'), -1), 1 if rp.get('OperationTarget') else 0])
    return parts


# ----------------------------------------------------------------------------- consumer stream
def run_cons(cases):
    msgs = c09_lib.Messages()
    out = []
    for events in cases:
        d = c09_lib.ManagerDriver(msgs)
        d.run(events)
        out.append(d.observe())
    return out


def run_sched(spec):
    """every schedule (at the granularity of lock acquire / buffer / table accesses) of a calling thread per call and
    one notification thread, each run on a fresh real OperationsManager with hooked lock, buffer and table"""
    msgs = c09_lib.Messages()
    out = []
    for sc in spec['scenarios']:
        runs, complete = c09_lib.explore(msgs, sc, spec.get('limit', 400))
        out.append({'runs': runs, 'complete': complete})
    return out


# ----------------------------------------------------------------------------- provider world
class Ctl:
    def __init__(self):
        self.cond = threading.Condition()
        self.entered = 0          # queued handlers that reached the gate
        self.released = 0         # 'finish' ops that opened the gate for a waiting handler
        self.accepted = 0         # queued requests answered without a fault
        self.worker_notifs = 0    # notify_operation calls completed by the worker thread
        self.busy = False         # the worker holds an item it took from the queue
        self.get_calls = 0        # calls of the instrumented queue.get
        self.taken = 0            # items the worker took from the queue
        self.completed = 0        # items the worker has finished with (it came back for the next one)
        self.gate = threading.Semaphore(0)
        self.gating = True
        self.queued_plans = collections.defaultdict(collections.deque)
        self.direct_plans = {}
        self.execs = {}           # req index -> [observed outcome, dv]
        self.errors = []


class NotifyProxy:
    def __init__(self, real, ctl):
        self._real, self._ctl = real, ctl

    def notify_operation(self, *a, **k):
        try:
            return self._real.notify_operation(*a, **k)
        finally:
            with self._ctl.cond:
                self._ctl.worker_notifs += 1
                self._ctl.cond.notify_all()

    def __getattr__(self, name):
        return getattr(self._real, name)


class ProvWorld:
    KINDS = ['activate', 'set_string', 'set_value', 'set_context_state', 'set_metric_state', 'set_component_state',
             'set_alert_state']

    def __init__(self, n_consumers=2, virtual_queue_timeout=True, trace_txid=False):
        import sdc11073.provider.sco as sco_mod
        from sdc11073.provider import operations as prov_ops
        from world import World
        sco_mod.time = types.SimpleNamespace(sleep=lambda _s: None, time=__import__('time').time)
        self.w = World()
        self.prov = self.w.provider
        self.ctl = Ctl()
        self.reg = self.prov._sco_operations_registries['Sco.mds0']
        self.worker = self.reg._worker
        product = self.prov.product_lookup['Sco.mds0']
        self.reg.check_invocation_timeouts = lambda: None      # no timeout handlers firing from the idle worker
        # no background MDIB transactions while MdibVersion is observed: the alert system self-check thread of the tutorial
        # role provider is told to stop (it is still inside its 1 s start delay)
        for sco_handle, prod in self.prov.product_lookup.items():
            for rp in getattr(prod, '_ordered_role_providers', []):
                ev = getattr(rp, '_stop_worker', None)
                if ev is not None:
                    ev.set()
        self.worker._set_service = NotifyProxy(self.worker._set_service, self.ctl)
        self.queue_cap = self.worker._operations_queue.maxsize
        q = self.worker._operations_queue
        ctl = self.ctl

        def get(block=True, timeout=None, _q=q):
            # the worker coming back for the next item has finished with the previous one
            with ctl.cond:
                ctl.get_calls += 1
                if ctl.busy:
                    ctl.busy = False
                    ctl.completed += 1
                ctl.cond.notify_all()
            item = queue.Queue.get(_q, block, timeout)
            with ctl.cond:
                ctl.busy = True
                ctl.taken += 1
            return item
        q.get = get
        if virtual_queue_timeout:

            def put(item, block=True, timeout=None, _q=q):
                # the timeout of enqueue_operation elapses at once: a full queue stays full
                if timeout is not None:
                    return queue.Queue.put(_q, item, block=False)
                return queue.Queue.put(_q, item, block, timeout)
            q.put = put
        # three more operation kinds, registered the way an application does it
        tgt_metric, tgt_comp, tgt_alert = '0x34F001D5', '2.1.2.1', '0xD3C00109'
        alert_targets = [e.handle for e in self.prov.mdib.entities.by_node_type(
            self.prov.mdib.data_model.pm_names.AlertSignalDescriptor)]
        if alert_targets:
            tgt_alert = alert_targets[0]
        self.reg.register_operation(prov_ops.SetMetricStateOperation('C09.metric', tgt_metric,
                                                                    product.metric_provider._set_metric_state))
        self.reg.register_operation(prov_ops.SetComponentStateOperation('C09.comp', tgt_comp,
                                                                       self._find_component_handler(product)))
        self.reg.register_operation(prov_ops.SetAlertStateOperation(
            'C09.alert', tgt_alert,
            lambda params: prov_ops.ExecuteResult(params.operation_instance.operation_target_handle, c09_lib.state_of(4))))
        self.handles = ['SVO.37.3569', 'SVO.39.CL.mds0', '0x34F04383.op', 'SVO.41.PC.mds0', 'C09.metric', 'C09.comp',
                        'C09.alert']
        self.op_index = {h: i for i, h in enumerate(self.handles)}
        self.targets = {'metric': tgt_metric, 'comp': tgt_comp, 'alert': tgt_alert}
        for h in self.handles:
            op = self.prov.get_operation_by_handle(h)
            if op is None:
                raise SystemExit(f'operation {h} is not registered')
            op._operation_handler = self._wrap(op, op._operation_handler)
        self.lock_trace = None
        if trace_txid:
            self._trace_txid()
        self.consumers = [self.w.add_consumer() for _ in range(n_consumers)]
        self.mdibs = [self.w.consumer_mdib(c) for c in self.consumers]
        self.netlocs = [c._verif_server.netloc for c in self.consumers]
        self.provider_netloc = self.w.provider_server.netloc
        self.futures = []
        self._proposals = {}
        self._enq0 = self.worker._operations_queue.unfinished_tasks
        # the worker was started before its queue was instrumented: wait until it has left the get() call it was in (<= 1 s)
        with ctl.cond:
            if not ctl.cond.wait_for(lambda: ctl.get_calls > 0, 5):
                raise SystemExit('the SCO worker does not poll its queue')

    @staticmethod
    def _find_component_handler(product):
        for sub in product._ordered_role_providers:
            if hasattr(sub, '_set_component_state'):
                return sub._set_component_state
        raise SystemExit('no role provider with _set_component_state')

    def _trace_txid(self):
        """every read/write of _transaction_id records whether the calling thread holds _transaction_id_lock"""
        prov = self.prov
        real_lock = prov._transaction_id_lock
        trace = self.lock_trace = {'accesses': 0, 'unlocked': 0}

        class OwnedLock:
            def __init__(self):
                self.owner = None

            def __enter__(self):
                real_lock.acquire()
                self.owner = threading.get_ident()
                return self

            def __exit__(self, *a):
                self.owner = None
                real_lock.release()

            def acquire(self, *a, **k):
                r = real_lock.acquire(*a, **k)
                if r:
                    self.owner = threading.get_ident()
                return r

            def release(self):
                self.owner = None
                real_lock.release()

        lk = OwnedLock()
        prov._transaction_id_lock = lk
        value = {'v': prov.__dict__.pop('_transaction_id')}

        def getter(_self):
            trace['accesses'] += 1
            if lk.owner != threading.get_ident():
                trace['unlocked'] += 1
            return value['v']

        def setter(_self, v):
            trace['accesses'] += 1
            if lk.owner != threading.get_ident():
                trace['unlocked'] += 1
            value['v'] = v

        prov.__class__ = type('TracedProvider', (prov.__class__,), {'_transaction_id': property(getter, setter)})
        self._txid_value = value

    def quiesce(self):
        """the world is not shut down (that costs seconds); the process ends with os._exit"""
        self.ctl.gating = False
        for _ in range(64):
            self.ctl.gate.release()

    def current_txid(self):
        if self.lock_trace is not None:
            return self._txid_value['v']
        return self.prov._transaction_id

    # ---- handler wrapper: executes the planned outcome, records what really happened
    def _wrap(self, op, real):
        from sdc11073.provider.operations import ExecuteResult
        ctl = self.ctl

        def handler(params):
            in_worker = threading.current_thread() is self.worker
            try:
                idx, plan = ctl.queued_plans[op.handle].popleft() if in_worker else ctl.direct_plans.pop(op.handle)
            except (IndexError, KeyError):
                ctl.errors.append(f'handler of {op.handle} executed without a plan')
                raise
            if in_worker and ctl.gating:
                with ctl.cond:
                    ctl.entered += 1
                    ctl.cond.notify_all()
                if not ctl.gate.acquire(timeout=30):
                    ctl.errors.append('gate timeout')
            v0 = self.prov.mdib.mdib_version
            try:
                if plan == 'real':
                    res = real(params)
                elif plan == 'raise':
                    raise ValueError('c09 planned failure')
                else:
                    res = ExecuteResult(op.operation_target_handle, c09_lib.state_of(plan[1]))
            except Exception:
                ctl.execs[idx] = ['raise', self.prov.mdib.mdib_version - v0]
                raise
            ctl.execs[idx] = [['ret', c09_lib.code_of(res.invocation_state)], self.prov.mdib.mdib_version - v0]
            return res
        return handler

    # ---- requests through the real service clients
    def _proposal(self, ci, what):
        key = (ci, what)
        if key not in self._proposals:
            mdib = self.mdibs[ci]
            if what == 'context':
                cl = self.consumers[ci].client('Context')
                pm = mdib.data_model.pm_names
                descr = mdib.descriptions.NODETYPE.get_one(pm.PatientContextDescriptor)
                st = cl.mk_proposed_context_object(descr.Handle)
                st.CoreData.Givenname = 'Karl'
                self._proposals[key] = st
            else:
                self._proposals[key] = mdib.xtra.mk_proposed_state(self.targets[what])
        return self._proposals[key]

    def call(self, ci, kind, handle, variant=0):
        cons = self.consumers[ci]
        ss = cons.client('Set')
        if kind == 0:
            return ss.activate(handle, arguments=None)
        if kind == 1:
            return ss.set_string(handle, ['169.254.0.199', 'not an address at all', 'x'][variant % 3])
        if kind == 2:
            return ss.set_numeric_value(handle, [42, 7][variant % 2])
        if kind == 3:
            return cons.client('Context').set_context_state(handle, [self._proposal(ci, 'context')])
        if kind == 4:
            return ss.set_metric_state(handle, [self._proposal(ci, 'metric')])
        if kind == 5:
            return ss.set_component_state(handle, [self._proposal(ci, 'comp')])
        if kind == 6:
            return ss.set_alert_state(handle, self._proposal(ci, 'alert'))
        raise ValueError(kind)

    def enqueued(self):
        """operations really put into the worker's queue, as counted by the queue itself (the worker never calls
        task_done); independent of what the response claims"""
        return self.worker._operations_queue.unfinished_tasks - self._enq0

    def settle(self, timeout=20.0):
        ctl = self.ctl
        with ctl.cond:
            # stable: every released operation is finished with (its last report is out, the worker came back), and
            # the next accepted one, if any, waits at the gate (its Wait/Start reports are out)
            ok = ctl.cond.wait_for(
                lambda: ctl.entered == min(self.enqueued(), ctl.released + 1) and ctl.completed == ctl.released, timeout)
        if not ok:
            ctl.errors.append(f'settle timeout entered={ctl.entered} enqueued={self.enqueued()} released={ctl.released} '
                              f'completed={ctl.completed} notifs={ctl.worker_notifs}')
        return ok

    def find_exchange(self, n0, client_names):
        for ex in self.w.net.log[n0:]:
            if ex.netloc == self.provider_netloc and ex.client in client_names and ex.method == 'POST':
                return ex
        return None

    def parts_for(self, ci, n0):
        out = []
        for ex in list(self.w.net.log[n0:]):
            if ex.netloc != self.netlocs[ci]:
                continue
            parts = parse_report(ex, self.op_index)
            if parts is not None:
                out.append(parts)
        return out

    def client_names(self, ci):
        cons = self.consumers[ci]
        names = set()
        for cl in cons._soap_clients.values() if hasattr(cons, '_soap_clients') else []:
            names.add(getattr(cl, 'client_name', None))
        return names

    def reboot(self):
        """the device behind the address reboots: its transaction ids start again; every consumer reacts with the public
        restart() (stop_all + start_all with the original parameters)"""
        if self.lock_trace is not None:
            self._txid_value['v'] = 0
        else:
            self.prov._transaction_id = 0
        info = []
        for cons in self.consumers:
            old = cons.operations_manager
            # the loop-back HTTP server object is shared and survives stop_all: forget the consumer's path as a real server does
            cons._verif_server.dispatcher._instances.pop(cons.path_prefix, None)
            cons.restart()
            info.append({'new_manager': cons.operations_manager is not old,
                         'buffered': len(cons.operations_manager._last_operation_invoked_reports),
                         'pending': len(cons.operations_manager._transactions)})
        return info

    # ---- one case of the sequential / burst stream
    def run_case(self, ops):
        ctl = self.ctl
        n_case = len(self.w.net.log)
        first_id = self.current_txid()
        mv0 = self.prov.mdib.mdib_version
        events, resps, versions, pcounts, futs = [], [], [], [], []
        done_at = {}
        ops = [list(o) for o in ops]
        i = 0
        aborted = None
        while True:
            if i >= len(ops):
                if self.enqueued() > ctl.released:
                    ops.append(['finish'])          # drain: every case ends with the worker at rest
                else:
                    break
            op = ops[i]
            i += 1
            before = sum(len(r) for r in self.parts_for(0, n_case))
            if op[0] == 'finish':
                if ctl.entered > ctl.released:
                    ctl.released += 1
                    ctl.gate.release()
                events.append(['finish'])
            else:
                _, ci, kind, known, mode, plan, variant = op
                idx = len(events)
                handle = self.handles[kind] if known else f'C09.nothing.{kind}'
                if known:
                    o = self.prov.get_operation_by_handle(handle)
                    o.delayed_processing = (mode == 'queued')
                    if kind == 6 and plan == 'real':
                        plan = ['ret', 4]
                    if mode == 'queued':
                        ctl.queued_plans[handle].append((idx, plan))
                    else:
                        ctl.direct_plans[handle] = (idx, plan)
                n0 = len(self.w.net.log)
                enq_before = self.enqueued()
                fut, exc = None, None
                try:
                    fut = self.call(ci, kind, handle, variant)
                except Exception as ex:  # noqa: BLE001
                    exc = type(ex).__name__
                ex_rec = None
                for e in list(self.w.net.log[n0:]):
                    # other traffic to the provider (subscription renewals of the consumers' housekeeping) is skipped
                    if e.netloc == self.provider_netloc and e.method == 'POST' and is_operation_request(e):
                        ex_rec = e
                        break
                resp = parse_response(ex_rec) if ex_rec is not None else [0]
                resps.append(resp)
                if known and mode == 'queued':
                    if self.enqueued() > enq_before:
                        ctl.accepted += 1
                    else:
                        ctl.queued_plans[handle].pop()      # nothing was queued: the handler will never ask for this plan
                futs.append([idx, ci, fut, exc])
                events.append(['req', ci, kind, known, mode, plan, variant])
            if not self.settle():
                aborted = ctl.errors[-1]
                break
            versions.append(self.prov.mdib.mdib_version)
            pcounts.append(sum(len(r) for r in self.parts_for(0, n_case)) - before)
            for fidx, _ci, f, _exc in futs:              # at which step was the result handle first seen completed
                if f is not None and fidx not in done_at and f.done():
                    done_at[fidx] = len(events) - 1
        # observed handler outcomes replace the plans ('real' handlers)
        for idx, ev in enumerate(events):
            if ev[0] == 'req':
                ev.append(ctl.execs.pop(idx, None))
        parts = [self.parts_for(ci, n_case) for ci in range(len(self.consumers))]
        fut_obs = []
        for idx, ci, fut, exc in futs:
            if fut is None:
                fut_obs.append([idx, ci, 'exception', exc])
            elif not fut.done():
                fut_obs.append([idx, ci, 'pending'])
            else:
                r = fut.result(timeout=0)
                fut_obs.append([idx, ci, 'done', c09_lib.code_of(r.InvocationInfo.InvocationState),
                                c09_lib.err_code(r.InvocationInfo.InvocationError),
                                [c09_lib.code_of(p.InvocationInfo.InvocationState) for p in r.report_parts],
                                [c09_lib.err_code(p.InvocationInfo.InvocationError) for p in r.report_parts]])
        errors, ctl.errors = ctl.errors, []
        ctl.execs.clear()
        return {'first_id': first_id, 'mv0': mv0, 'events': events, 'resps': resps,
                'reports': parts[0], 'reports_other': parts[1:], 'versions': versions, 'pcounts': pcounts,
                'futures': fut_obs, 'done_at': sorted(done_at.items()), 'errors': errors, 'aborted': aborted,
                'queue_len_end': self.worker._operations_queue.qsize()}


def run_prov(cases):
    pw = ProvWorld(n_consumers=2)
    out = []
    reboots = []
    for ops in cases:
        if ops == 'reboot':
            reboots.append({'after_case': len(out), 'consumers': pw.reboot()})
            continue
        tr = pw.run_case(ops)
        out.append(tr)
        if tr['aborted']:
            break
    return {'traces': out, 'queue_cap': pw.queue_cap, 'handles': pw.handles, 'reboots': reboots}


# ----------------------------------------------------------------------------- concurrent consumers
def run_conc(spec):
    """spec: {'threads': [[ [kind, known, mode, plan, variant], ... ] per consumer thread]}; every thread calls its
    operations one after the other and waits for each result handle; the threads run concurrently"""
    out = []
    for rnd in spec['rounds']:
        pw = ProvWorld(n_consumers=len(rnd), virtual_queue_timeout=False, trace_txid=True)
        pw.ctl.gating = False
        n0 = len(pw.w.net.log)
        first_id = pw.current_txid()
        results = [[] for _ in rnd]
        plan_lock = threading.Lock()
        start = threading.Barrier(len(rnd))

        def body(ci, calls, pw=pw, results=results, start=start, plan_lock=plan_lock):
            start.wait(timeout=10)
            for kind, known, mode, plan, variant in calls:
                handle = pw.handles[kind] if known else f'C09.nothing.{kind}'
                # every thread has its own operation kind (kind == thread index mod 7 is arranged by the generator), so
                # delayed_processing and the plans of one operation are touched by one thread only
                if known:
                    o = pw.prov.get_operation_by_handle(handle)
                    o.delayed_processing = (mode == 'queued')
                    if mode == 'queued':
                        pw.ctl.queued_plans[handle].append((-1, plan))
                    else:
                        pw.ctl.direct_plans[handle] = (-1, plan)
                rec = {'kind': kind, 'known': known, 'mode': mode, 'plan': plan}
                try:
                    fut = pw.call(ci, kind, handle, variant)
                    r = fut.result(timeout=20)
                    rec.update(done=True, id=r.InvocationInfo.TransactionId,
                               resp_id=r.set_response.InvocationInfo.TransactionId,
                               resp=c09_lib.code_of(r.set_response.InvocationInfo.InvocationState),
                               state=c09_lib.code_of(r.InvocationInfo.InvocationState),
                               parts=[c09_lib.code_of(p.InvocationInfo.InvocationState) for p in r.report_parts])
                except Exception as ex:  # noqa: BLE001
                    rec.update(done=False, error=type(ex).__name__)
                results[ci].append(rec)

        threads = [threading.Thread(target=body, args=(ci, calls)) for ci, calls in enumerate(rnd)]
        for t in threads:
            t.start()
        for t in threads:
            t.join(timeout=60)
        alive = [t.is_alive() for t in threads]
        # wait for the worker to finish its last notification to the other subscribers
        n_queued = sum(1 for calls in rnd for c in calls if c[1] and c[2] == 'queued')
        with pw.ctl.cond:
            pw.ctl.cond.wait_for(lambda: pw.ctl.completed >= n_queued, 20)
        reports = [pw.parts_for(ci, n0) for ci in range(len(rnd))]
        wire = []
        for ex in pw.w.net.log[n0:]:
            if ex.netloc == pw.provider_netloc and ex.method == 'POST' and is_operation_request(ex):
                wire.append([ex.client, parse_response(ex)])
        pw.quiesce()
        out.append({'first_id': first_id, 'results': results, 'reports': reports, 'wire': wire, 'alive': alive,
                    'lock_trace': pw.lock_trace, 'errors': pw.ctl.errors,
                    'client_of': [sorted(n for n in pw.client_names(ci) if n) for ci in range(len(rnd))]})
    return out


res = {}
if 'cons' in req_in:
    res['cons'] = run_cons(req_in['cons'])
if 'sched' in req_in:
    res['sched'] = run_sched(req_in['sched'])
if 'prov' in req_in:
    res['prov'] = run_prov(req_in['prov'])
if 'conc' in req_in:
    res['conc'] = run_conc(req_in['conc'])
print(json.dumps(res))
sys.stdout.flush()
import os  # noqa: E402
os._exit(0)       # background threads of the provider / consumers (housekeeping, worker) are not joined
