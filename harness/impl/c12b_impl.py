"""Implementation side of C12, streams `alias-ctor`, `alias-sep` and `alias-mdib`: object-identity reachability on
the REAL classes (nothing is re-implemented).

alias-ctor  every class of xml_types / containers is constructed through __init__ in all the ways the library does
            (no argument, None for the required ones, each optional argument given alone, random subsets, with a
            descriptor for states, from_node of its own serialisation, classmethod factories).  All instances of
            all classes stay alive in ONE registry id(object) -> owner: a mutable object that is reachable from two
            roots (instance / instance, instance / class default, instance / default-argument object of a
            function) is a finding.  Then every mutable object reachable from one instance is mutated IN PLACE
            (list append / extend / pop / clear, attribute write on nested objects, lxml attribute, set / dict
            insert, the observable `node`) and after every single mutation the value snapshots of all other live
            instances of the class, of newly constructed instances and of all class defaults must be unchanged.
alias-sep   populated instance a (xs_gen), b = op(a) for op in mk_copy / mk_copy(copy_node) / copy.deepcopy /
            copy.copy / from_node (two parses of one document, parse of a second document) /
            update_from_other_container / update_from_node: a and b must not share a mutable object at any depth
            (path reported), every in-place mutation of b leaves the value of a unchanged and vice versa.
alias-mdib  a ProviderMdib from tests/mdib_tns.xml with generated list / sub-element members: entity getters and
            entity.update() must hand out containers that share nothing with the containers inside the mdib.

stdin : {"seed": n, "ctor_rounds": k, "sep_rounds": k, "mdib": bool, "only": [class keys] | null}
stdout: {"ctor": {...}, "sep": {...}, "mdib": {...}}  each {"findings": [...], "hist": {...}}"""
import copy
import datetime
import enum
import inspect
import json
import random
import sys
import traceback
import types
from decimal import Decimal

from lxml import etree

import xs_gen as G
import xs_lib as X
from sdc11073.observableproperties.observables import ObservableProperty, _ObservableValue
from sdc11073.xml_types import isoduration
from sdc11073.xml_types import xml_structure as xs

req = json.load(sys.stdin)
RNG = random.Random(req.get('seed', 1))

# constructors that draw a uuid / read the clock get a constant one (fresh instances must be comparable)
import uuid as _uuid  # noqa: E402
from sdc11073.mdib import statecontainers as _sc  # noqa: E402
from sdc11073.xml_types import addressing_types as _at  # noqa: E402
_FAKE_UUID = types.SimpleNamespace(uuid4=lambda: _uuid.UUID(int=0x11073C12), UUID=_uuid.UUID)
_at.uuid = _FAKE_UUID
_sc.uuid = _FAKE_UUID
_sc.time = types.SimpleNamespace(time=lambda: 1700000000.0)
# the reader produces xml_utils.QName (which can be deep-copied); the generator must not hand out lxml's own QName
from sdc11073 import xml_utils as _xu  # noqa: E402
_orig_qname = G.Gen.qname
G.Gen.qname = lambda self: _xu.QName(_orig_qname(self).text)
ONLY = req.get('only')

CLASSES = {}
BROKEN = []
for _c in X.all_classes():
    try:
        X.class_props(_c)
        CLASSES[X.class_key(_c)] = _c
    except X.BrokenClass as _ex:
        BROKEN.append(str(_ex))
SITES = X.default_sites(list(CLASSES.values()))

# attribute edges that are shared BY DESIGN and therefore not followed:
#   state.descriptor_container  (all states of a descriptor point to it)
#   the VALUE of the observable `node` (the element of the source document; mk_copy(copy_node=False) keeps it)
BY_DESIGN_ATTRS = {'descriptor_container'}
IMMUTABLE = (str, bytes, int, float, bool, type(None), Decimal, enum.Enum, etree.QName, datetime.date, datetime.time,
             datetime.timedelta, datetime.tzinfo, type, types.FunctionType, types.MethodType, types.BuiltinFunctionType,
             types.ModuleType, frozenset, range, complex, ObservableProperty)
OPAQUE = {}      # type name -> count of objects that are neither known immutable nor followed (measured, reported)


def is_lxml(v):
    return isinstance(v, etree._Element)  # noqa: SLF001


def is_mut(v):
    return X.is_struct(v) or isinstance(v, (list, dict, set, bytearray, _ObservableValue)) or is_lxml(v)


def slot_names(v):
    return {p._local_var_name for _, p in X.class_props(type(v))}  # noqa: SLF001


# zero-argument public methods that are NOT called as accessors: everything whose name says that it changes or
# builds something (the rest - get_retrievability(), is_empty(), any future getter - is called and what it returns
# counts as reachable from the instance: a memo / cache behind a getter is state of the instance)
MUTATOR_PREFIXES = ('add_', 'mk_', 'increment_', 'update_', 'init_', 'set_', 'remove_', 'del', 'clear', 'pop', 'append',
                    'extend', 'insert', 'sort', 'reverse', 'write_', 'send_', 'start', 'stop', 'close', 'reset')
NOT_ACCESSORS = {'sorted_container_properties', 'as_etree_node', 'mk_copy'}
_ACCESSORS = {}
ACCESSOR_STATS = {'classes_with_accessor': 0, 'calls': 0, 'raised': 0, 'names': {}}


def accessor_names(cls):
    """([zero-argument public getter methods], [python properties], [__slots__ names]) of a class"""
    if cls not in _ACCESSORS:
        meths, props, slots = [], [], []
        for name in dir(cls):
            if name.startswith('_') or name in NOT_ACCESSORS:
                continue
            a = inspect.getattr_static(cls, name)
            if isinstance(a, property):
                props.append(name)
            elif inspect.isfunction(a) and not name.startswith(MUTATOR_PREFIXES):
                ps = list(inspect.signature(a).parameters.values())[1:]
                if not [q for q in ps if q.default is q.empty and q.kind not in (q.VAR_POSITIONAL, q.VAR_KEYWORD)]:
                    meths.append(name)
        for klass in inspect.getmro(cls):
            sl = klass.__dict__.get('__slots__', ())
            slots += [sl] if isinstance(sl, str) else list(sl)
        _ACCESSORS[cls] = (meths, props, [x for x in slots if x not in ('__dict__', '__weakref__')])
        if meths or props:
            ACCESSOR_STATS['classes_with_accessor'] += 1
            for n in meths + props:
                ACCESSOR_STATS['names'][n] = ACCESSOR_STATS['names'].get(n, 0) + 1
    return _ACCESSORS[cls]


def accessor_results(v):
    """[(step, object)] handed out by the getters of v (the call itself is part of the history: it may fill a memo)"""
    meths, props, slots = accessor_names(type(v))
    out = []
    for name in slots:
        try:
            out.append(('.' + name, getattr(v, name)))
        except Exception:  # noqa: BLE001
            pass
    for name in props:
        try:
            out.append(('.' + name, getattr(v, name)))
        except Exception:  # noqa: BLE001
            ACCESSOR_STATS['raised'] += 1
    for name in meths:
        ACCESSOR_STATS['calls'] += 1
        try:
            out.append((f'.{name}()', getattr(v, name)()))
        except Exception:  # noqa: BLE001
            ACCESSOR_STATS['raised'] += 1
    if hasattr(v, 'get_actual_value'):
        for name, _ in X.class_props(type(v)):
            try:
                out.append((f".get_actual_value('{name}')", v.get_actual_value(name)))
            except Exception:  # noqa: BLE001
                pass
    return out


def prime(v):
    """call every getter of everything reachable from v (the application did that before the operation under test)"""
    return len(walk(v))


def kids(v):
    """[(step, child)] of a mutable object / tuple: declared members, EVERY other entry of __dict__, __slots__,
    and what the public getters hand out"""
    if X.is_struct(v):
        out, slots = [], set()
        for name, p in X.class_props(type(v)):
            slots.add(p._local_var_name)  # noqa: SLF001
            out.append(('.' + name, v.__dict__.get(p._local_var_name)))  # noqa: SLF001
        for k, x in list(v.__dict__.items()):
            if k not in slots and k not in BY_DESIGN_ATTRS:
                out.append(('.' + k, x))
        return out + accessor_results(v)
    if isinstance(v, (list, tuple)):
        return [(f'[{i}]', x) for i, x in enumerate(v)]
    if isinstance(v, (set, frozenset)):
        return [('{}', x) for x in v]
    if isinstance(v, dict):
        out = []
        for i, (k, x) in enumerate(v.items()):
            kn = k if isinstance(k, str) else type(k).__name__
            out.append((f'<key {i}>', k))
            out.append((f'[{kn}]', x))
        return out
    if isinstance(v, _ObservableValue):
        return [('._observers', v._observers)]  # noqa: SLF001
    return []


def walk(root, path=''):
    """[(path, depth, object)] of every mutable object reachable from root (root included), first visit only"""
    out, seen, todo = [], set(), [(path, 0, root)]
    while todo:
        p, d, v = todo.pop()
        if isinstance(v, IMMUTABLE) and not isinstance(v, tuple):
            continue
        if isinstance(v, tuple):
            todo.extend((p + s, d + 1, x) for s, x in reversed(kids(v)))
            continue
        if not is_mut(v):
            if type(v).__module__ == isoduration.__name__:
                continue
            OPAQUE[type(v).__name__] = OPAQUE.get(type(v).__name__, 0) + 1
            continue
        if id(v) in seen:
            continue
        seen.add(id(v))
        out.append((p, d, v))
        todo.extend((p + s, d + 1, x) for s, x in reversed(kids(v)))
    return out


# --------------------------------------------------------------------------- value snapshots
def xcanon(x):
    if isinstance(x, _ObservableValue):
        return ('observable', xcanon(x.value), len(x._observers))  # noqa: SLF001
    if is_lxml(x):
        return ('element-id', id(x))          # WHICH element the attribute points to
    if isinstance(x, dict):
        return ('dict', tuple((k if isinstance(k, str) else type(k).__name__, xcanon(v)) for k, v in x.items()))
    if isinstance(x, (list, tuple)):
        return ('list', tuple(xcanon(v) for v in x))
    if X.is_struct(x):
        return snap(x, getters=False)
    try:
        return X.canon(x)
    except Exception:  # noqa: BLE001
        return repr(x)[:80]


def snap(v, getters=True):
    """comparable value of an instance: canonical dump of the declared members + the other attributes + what the
    public getters return (of the instance itself; nested objects without, that ends the recursion)"""
    if not X.is_struct(v):
        return (X.canon(v), ())
    slots = slot_names(v)
    extras = [(k, xcanon(x)) for k, x in sorted(v.__dict__.items()) if k not in slots and k not in BY_DESIGN_ATTRS]
    if getters:
        meths, props, slot_attrs = accessor_names(type(v))
        for name in slot_attrs + props + meths:
            try:
                r = getattr(v, name)
                extras.append((name + ('()' if name in meths else ''), xcanon(r() if name in meths else r)))
            except Exception as ex:  # noqa: BLE001
                extras.append((name, 'raises ' + type(ex).__name__))
    return (X.canon(v), tuple(extras))


def snap_diff(s0, s1):
    if s0[0] != s1[0]:
        d = X.canon_diff(s0[0], s1[0])
        if d and d[1] is None and d[2] is None:
            return d[0]
        return f'{d[0]}: {str(d[1])[:120]} -> {str(d[2])[:120]}' if d else 'value differs'
    for (k0, x0), (k1, x1) in zip(s0[1], s1[1]):
        if (k0, x0) != (k1, x1):
            return f'.{k0}: {str(x0)[:120]} -> {str(x1)[:120]}'
    return 'attributes differ'


# --------------------------------------------------------------------------- in-place mutation of everything reachable
class Mutator:
    """mutates IN PLACE every mutable object reachable from `root`; `check(op description)` is called after each"""

    def __init__(self, root, gen, check, label, skip_ids=()):
        self.root, self.gen, self.check, self.label, self.skip_ids = root, gen, check, label, skip_ids
        self.n = 0
        self.kinds = {}

    def done(self, path, kind):
        self.n += 1
        self.kinds[kind] = self.kinds.get(kind, 0) + 1
        self.check(f'{self.label}{path}: {kind}')

    def sentinel(self, lst, i):
        if isinstance(lst, xs.ExtensionLocalValue) or any(is_lxml(e) for e in lst):
            el = etree.Element('{urn:verif:c12}sentinel')
            el.set('n', str(i))
            return el
        return f'c12-sentinel-{i}'

    def scalar_write(self, path, obj):
        for name, p in X.class_props(type(obj)):
            if not isinstance(p, (xs._AttributeBase, xs.NodeTextProperty)) or \
                    isinstance(p, (xs._AttributeListBase, xs.CurrentTimestampAttributeProperty)):  # noqa: SLF001
                continue
            before = X.canon(obj.__dict__.get(p._local_var_name))  # noqa: SLF001
            for _ in range(3):
                try:
                    v = self.gen.value(type(obj), name, p, 9)
                    if X.canon(v) == before:
                        continue
                    setattr(obj, name, v)
                except Exception:  # noqa: BLE001
                    break
                self.done(path, f'{name} = {str(v)[:30]!r}')
                return True
        return False

    def run(self):
        first = walk(self.root)
        for path, depth, v in first:                       # pass 1: growing / overwriting operations
            if isinstance(v, list):
                v.append(self.sentinel(v, 1))
                self.done(path, 'append(x)')
                v.extend([self.sentinel(v, 2), self.sentinel(v, 3)])
                self.done(path, 'extend([x, y])')
            elif X.is_struct(v):
                self.scalar_write(path, v)
                if isinstance(getattr(type(v), 'node', None), ObservableProperty):
                    v.node = etree.Element('{urn:verif:c12}node')
                    self.done(path, 'node = <new element>')
            elif is_lxml(v):
                if id(v) in self.skip_ids:
                    continue
                v.set('c12', 'mutated')
                self.done(path, "set('c12', ..)")
            elif isinstance(v, set):
                v.add('c12-sentinel')
                self.done(path, 'add(x)')
            elif isinstance(v, dict) and not any(isinstance(k, ObservableProperty) for k in v):
                v['c12-sentinel'] = 1
                self.done(path, "['c12-sentinel'] = 1")
        for path, depth, v in walk(self.root):             # pass 2: shrinking operations on what is still reachable
            if isinstance(v, list) and v:
                v.pop()
                self.done(path, 'pop()')
                if v:
                    v[0] = self.sentinel(v, 4)
                    self.done(path, '[0] = x')
                v.clear()
                self.done(path, 'clear()')
        return self.n


class Findings:
    def __init__(self):
        self.items = []
        self.keys = {}

    def add(self, clause, op, cls, path, detail, replay, kind=''):
        key = (clause + (': ' + kind if kind else ''), op, cls)
        self.keys[key] = self.keys.get(key, 0) + 1
        if self.keys[key] == 1:
            self.items.append({'clause': clause, 'kind': kind, 'op': op, 'cls': cls, 'path': path, 'detail': detail,
                               'replay': replay})


class Watch:
    """value snapshots of objects that an operation sequence must not change"""

    def __init__(self):
        self.items = []       # [label, getter, snapshot]

    def add(self, label, getter):
        self.items.append([label, getter, getter()])

    def changed(self):
        out = []
        for it in self.items:
            try:
                s = it[1]()
            except Exception as ex:  # noqa: BLE001
                s = ('crash', repr(ex)[:100])
            if s != it[2]:
                try:
                    d = snap_diff(it[2], s)
                except Exception:  # noqa: BLE001
                    d = 'value differs'
                out.append((it[0], d))
                it[2] = s
        return out


def defaults_value():
    return tuple(X.canon(s[3]) for s in SITES)


def defaults_diff(d0, d1):
    for s, x, y in zip(SITES, d0, d1):
        if x != y:
            d = X.canon_diff(x, y)
            if d and d[1] is None and d[2] is None:
                return f'{s[0]}.{s[1]}{d[0]}'
            return f'{s[0]}.{s[1]}' + (f'{d[0]}: {str(d[1])[:100]} -> {str(d[2])[:100]}' if d else '')
    return '?'


# --------------------------------------------------------------------------- constructor variants
def struct_class_by_name(name):
    for k, c in CLASSES.items():
        if c.__name__ == name:
            return c
    return None


def arg_value(param, rng):
    """a FRESH argument value guessed from the annotation text (never reused between two constructor calls)"""
    ann = param.annotation if isinstance(param.annotation, str) else getattr(param.annotation, '__name__', str(param.annotation))
    ann = ann.replace('Optional[', '').replace(' | None', '').replace('None | ', '').strip()
    low = ann.lower()
    if low.startswith(('list[', 'iterable[', 'sequence[', 'list', 'typing.iterable')):
        inner = ann[ann.find('[') + 1:ann.rfind(']')] if '[' in ann else 'str'
        fake = inspect.Parameter('x', inspect.Parameter.POSITIONAL_OR_KEYWORD, annotation=inner)
        e = arg_value(fake, rng)
        return [] if e is None or rng.random() < 0.3 else [e]
    if low in ('str', 'string'):
        return f'v{rng.randrange(1000)}'
    if low == 'int':
        return rng.randrange(100)
    if low == 'bool':
        return rng.random() < 0.5
    if low == 'float':
        return float(rng.randrange(100))
    if low in ('decimal', 'decimal.decimal', 'decimal_type'):
        return Decimal(rng.randrange(100))
    if 'qname' in low:
        return etree.QName('urn:verif:c12', f'q{rng.randrange(100)}')
    c = struct_class_by_name(ann.split('.')[-1])
    if c is not None:
        try:
            return X.construct(c)
        except Exception:  # noqa: BLE001
            return None
    return None


def ctor_params(cls):
    sig = inspect.signature(cls.__init__)
    req_, opt = [], []
    for i, p in enumerate(sig.parameters.values()):
        if i == 0 or p.kind in (p.VAR_POSITIONAL, p.VAR_KEYWORD):
            continue
        (req_ if p.default is p.empty else opt).append(p)
    return req_, opt


def descriptor_for_state(cls):
    if not X.class_key(cls).startswith('statecontainers.') or not cls.__name__.endswith('StateContainer'):
        return None
    return CLASSES.get('descriptorcontainers.' + cls.__name__.replace('StateContainer', 'DescriptorContainer'))


def ctor_variants(cls, rng, rounds):
    """[(description, thunk)]; every thunk builds a new instance with fresh arguments"""
    req_, opt = ctor_params(cls)
    out = [('cls() [required arguments None]', lambda: X.construct(cls))]

    def with_args(names, seed):
        def thunk():
            r = random.Random(seed)
            kw = {}
            for p in opt:
                if p.name in names:
                    v = arg_value(p, r)
                    if v is not None:
                        kw[p.name] = v
            if not kw:
                raise LookupError('no value for these arguments')
            args = [None for p in req_ if p.kind is not p.KEYWORD_ONLY]
            kw.update({p.name: None for p in req_ if p.kind is p.KEYWORD_ONLY})
            try:
                return cls(*args, **kw)
            except TypeError:
                return cls(*['' for _ in args], **kw)
        return thunk
    for p in opt:
        out.append((f'cls({p.name}=<value>)', with_args({p.name}, rng.randrange(1 << 30))))
    for _ in range(rounds if len(opt) > 1 else 0):
        names = {p.name for p in opt if rng.random() < 0.5}
        if names:
            out.append((f'cls({", ".join(sorted(names))})', with_args(names, rng.randrange(1 << 30))))
    dcls = descriptor_for_state(cls)
    if dcls is not None:
        def with_descriptor():
            d = dcls('h0', 'p0')
            return cls(d)
        out.append(('cls(descriptor_container=<descriptor>)', with_descriptor))
        if 'handle' in [p.name for p in opt]:
            out.append(('cls(<descriptor>, handle=..)', lambda: cls(dcls('h0', 'p0'), handle='h0.1')))

    def reparsed():
        node = etree.fromstring(etree.tostring(X.serialise(X.construct(cls))))
        return X.parse(cls, node)

    def reparsed_minimal():
        node = etree.fromstring(etree.tostring(X.serialise(X.construct(cls))))
        for child in list(node):
            node.remove(child)
        return X.parse(cls, node)
    if X.class_key(cls) not in X.NOT_STANDALONE:
        out.append(('cls.from_node(serialisation of cls())', reparsed))
        out.append(('cls.from_node(serialisation of cls() without its child elements)', reparsed_minimal))
    for klass in inspect.getmro(cls):                         # classmethod / staticmethod factories without a node
        for name, f in klass.__dict__.items():
            if isinstance(f, (classmethod, staticmethod)) and name not in ('from_node', 'value_class_from_node'):
                ps = [p for p in list(inspect.signature(f.__func__).parameters.values())[isinstance(f, classmethod):]]

                def factory(name=name, ps=ps, seed=rng.randrange(1 << 30)):
                    r = random.Random(seed)
                    kw = {}
                    for p in ps:
                        v = arg_value(p, r)
                        if v is None and p.default is p.empty:
                            raise LookupError(f'no value for {p.name}')
                        if v is not None:
                            kw[p.name] = v
                    return getattr(cls, name)(**kw)
                out.append((f'cls.{name}(..)', factory))
    return out


def function_default_roots():
    """mutable objects stored as default ARGUMENT values of functions of the classes and of their modules"""
    out, seen = [], set()

    def scan(owner, name, f):
        f = getattr(f, '__func__', f)
        if not isinstance(f, types.FunctionType) or id(f) in seen:
            return
        seen.add(id(f))
        vals = list(f.__defaults__ or ()) + list((f.__kwdefaults__ or {}).values())
        for i, d in enumerate(vals):
            if is_mut(d):
                out.append((f'{owner}.{name} default #{i}', d))
    mods = set()
    for cls in CLASSES.values():
        mods.add(sys.modules[cls.__module__])
        for klass in inspect.getmro(cls):
            if klass.__module__.startswith('sdc11073.'):
                for name, f in list(klass.__dict__.items()):
                    scan(X.class_key(klass), name, f)
    for m in mods:
        for name, f in list(vars(m).items()):
            if getattr(f, '__module__', None) == m.__name__:
                scan(m.__name__.split('.')[-1], name, f)
    return out


class Registry:
    """id(mutable object) -> (root label, kind, path); everything registered is kept alive (ids stay unique)"""

    def __init__(self):
        self.owner = {}
        self.keep = []

    def add(self, label, kind, root):
        """register root; returns [(other label, other kind, other path, path here, depth here, type)]"""
        self.keep.append(root)
        hits = []
        for p, d, v in walk(root):
            o = self.owner.get(id(v))
            if o is None:
                self.owner[id(v)] = (label, kind, p)
                self.keep.append(v)
            elif o[0] != label:
                hits.append((o[0], o[1], o[2], p, d, type(v).__name__))
        return hits


def stream_ctor():
    fnd, hist = Findings(), {'classes': 0, 'instances': 0, 'variants_rejected': 0, 'variants_ok': 0, 'mutations': 0,
                             'watch_evaluations': 0, 'objects_registered': 0, 'fresh_rechecks': 0,
                             'construct_failed': 0}
    kinds = {}
    dkeys = set()
    reg = Registry()
    argroots = function_default_roots()
    hist['default_sites'] = len(SITES)
    hist['mutable_default_arguments'] = len(argroots)
    for label, d in argroots:         # first: they exist before any class default is constructed
        reg.add(f'default argument of {label}', 'argdefault', d)
    for s in SITES:
        for ol, ok, op_, p, d, tn in reg.add(f'class default {s[0]}.{s[1]}', 'default', s[3]):
            clause = 'class default holds the default-argument object of a function' if ok == 'argdefault' else \
                'two class defaults share a mutable object'
            fnd.add(clause, 'construct', s[0], p, f'class default {s[0]}.{s[1]}{p} ({tn}) IS {ol}{op_}',
                    {'class': s[0], 'member': s[1], 'path': p, 'same_object_as': f'{ol}{op_}'})
    keys = [k for k in CLASSES if ONLY is None or k in ONLY]
    gen = G.Gen(random.Random(RNG.randrange(1 << 30)), max_depth=1, max_list=2, exotic=0.0)
    # value of cls() for EVERY class at the start of the process
    fresh0, d0 = {}, defaults_value()
    for k, cls in CLASSES.items():
        try:
            fresh0[k] = snap(X.construct(cls))
        except Exception:  # noqa: BLE001
            hist['construct_failed'] += 1
    RNG.shuffle(keys)
    history = []

    def recheck_all(after):
        """a freshly constructed object of ANY class / any class default: same value as at process start"""
        nonlocal d0
        for k2, s0 in fresh0.items():
            s1 = snap(X.construct(CLASSES[k2]))
            hist['fresh_rechecks'] += 1
            if s1 != s0:
                fnd.add('fresh instance differs', 'construct', k2, snap_diff(s0, s1),
                        f'{k2}() no longer has the value it had at process start',
                        {'class': k2, 'history_classes_mutated_before': after[-20:], 'difference': snap_diff(s0, s1)})
                fresh0[k2] = s1
        d1 = defaults_value()
        if d1 != d0:
            fnd.add('class default changed', 'construct', after[-1] if after else '?', defaults_diff(d0, d1),
                    'a _default_py_value changed its value', {'history_classes_mutated_before': after[-20:]})
            d0 = d1

    for n, key in enumerate(keys):
        cls = CLASSES[key]
        if key not in fresh0:
            continue
        hist['classes'] += 1
        variants = ctor_variants(cls, RNG, req.get('ctor_rounds', 2))
        live = []            # (description, thunk, instance)
        for rep in range(2):                     # every variant twice: the second call must not see the first
            for desc, thunk in variants:
                try:
                    inst = thunk()
                    for name, _ in X.class_props(type(inst)):    # lazily allocated members exist now
                        getattr(inst, name)
                except Exception:  # noqa: BLE001   argument guess rejected / factory needs more: not this check's business
                    hist['variants_rejected'] += 1
                    continue
                hist['variants_ok'] += 1
                label = f'{key} #{len(live)} = {desc}'
                dkeys.add(f'{key}|{desc}|{len(walk(inst))}')
                for ol, ok, op_, p, d, tn in reg.add(label, 'instance', inst):
                    clause = {'default': 'instance shares an object with a class default',
                              'argdefault': 'instance holds the default-argument object of a function',
                              'instance': 'two instances share a mutable object'}[ok]
                    fnd.add(clause, 'construct', key, p,
                            f'{label}: member {p or "<itself>"} ({tn}) IS {ol}{op_}',
                            {'class': key, 'constructed_by': desc, 'path': p, 'same_object_as': f'{ol}{op_}',
                             'ops': [f'x = {ol}', f'y = {desc}', f'assert y{p} is not x{op_}']})
                live.append((desc, thunk, inst))
        hist['instances'] += len(live)
        if not live:
            continue
        # mutate every instance in turn; all the others (and a later constructed one) keep their value
        for target in range(len(live)):
            if target >= 2 and RNG.random() < 0.5:        # the two no-argument instances always, the rest sampled
                continue
            watch = Watch()
            for j, (desc, thunk, inst) in enumerate(live):
                if j != target:
                    watch.add(f'{key} #{j} = {desc}', lambda inst=inst: snap(inst))
            for desc, thunk in variants[:1] + [v for v in variants[1:] if RNG.random() < 0.3]:
                try:
                    thunk()
                except Exception:  # noqa: BLE001
                    continue
                watch.add(f'NEW {desc}', lambda thunk=thunk: snap(thunk()))
            watch.add('class defaults', lambda: (('list', defaults_value()), ()))
            tdesc = live[target][0]
            log = []

            def check(what, log=log, watch=watch, tdesc=tdesc, target=target):
                log.append(what)
                hist['watch_evaluations'] += len(watch.items)
                for wl, diff in watch.changed():
                    if wl == 'class defaults' and diff.startswith('['):
                        i = int(diff[1:diff.index(']')])
                        diff = f'{SITES[i][0]}.{SITES[i][1]}' + diff[diff.index(']') + 1:]
                    clause = 'fresh instance differs' if wl.startswith('NEW') else \
                        'class default changed' if wl == 'class defaults' else 'other instance changed'
                    fnd.add(clause, 'construct', key, what,
                            f'after in-place {what} on instance #{target} ({tdesc}): {wl} changed: {diff}',
                            {'class': key, 'mutated_instance': f'#{target} = {tdesc}', 'ops': list(log),
                             'changed': wl, 'difference': diff})
            m = Mutator(live[target][2], gen, check, f'#{target}')
            hist['mutations'] += m.run()
            for k2, v2 in m.kinds.items():
                k2 = k2.split('(')[0].split(' =')[0] if not k2[0].isupper() else 'attribute write'
                kinds[k2] = kinds.get(k2, 0) + v2
        history.append(key)
        if n % 16 == 15:
            recheck_all(history)
    recheck_all(history)
    hist['objects_registered'] = len(reg.owner)
    hist['mutation_kinds'] = kinds
    return {'findings': fnd.items, 'finding_counts': {' | '.join(k): v for k, v in fnd.keys.items()}, 'hist': hist,
            'keys': sorted(dkeys)}


# --------------------------------------------------------------------------- copy-like operations must separate
def populated(cls, gen):
    for _ in range(4):
        try:
            inst = gen.instance(cls, full=gen.rng.random() < 0.7)
            for name, _ in X.class_props(type(inst)):
                getattr(inst, name)
            return inst
        except Exception:  # noqa: BLE001
            continue
    return None


def doc_of(inst):
    return etree.fromstring(etree.tostring(X.serialise(inst)))


def lxml_ids(node):
    keep = list(node.iter())          # lxml proxies: the id is stable only while the proxy is referenced
    return {id(e) for e in keep}, keep


def stream_sep():
    fnd = Findings()
    hist = {'classes': 0, 'pairs': 0, 'mutations': 0, 'watch_evaluations': 0, 'no_instance': 0, 'op_failed': {},
            'ops': {}, 'shared_objects_by_op': {}, 'objects_compared': 0}
    keys = [k for k in CLASSES if ONLY is None or k in ONLY]
    d0 = defaults_value()
    for key in keys:
        cls = CLASSES[key]
        if key in X.NOT_STANDALONE:
            continue
        cont = X.is_container(cls)
        ops = ['deepcopy', 'copy.copy', 'from_node twice', 'from_node two documents', 'update_from_node']
        if cont:
            ops += ['mk_copy', 'mk_copy(copy_node=True)', 'update_from_other_container']
        hist['classes'] += 1
        for rnd in range(req.get('sep_rounds', 1)):
            no_getters = False
            for op, primed in [(o, False) for o in ops] + [(o, True) for o in ops]:
                if primed and no_getters:
                    break
                gen = G.Gen(random.Random(RNG.randrange(1 << 30)), max_depth=2, max_list=2, exotic=0.0)
                a = populated(cls, gen)
                if a is None:
                    hist['no_instance'] += 1
                    break
                if hasattr(a, 'set_retrievability'):       # descriptors: give the getter something to hand out
                    from sdc11073.xml_types import pm_types as _pm
                    a.set_retrievability([_pm.Retrievability([_pm.RetrievabilityInfo(_pm.RetrievabilityMethod.EPISODIC)])])
                if primed:
                    # order of API calls matters: the application called the getters of the source BEFORE the operation
                    calls = ACCESSOR_STATS['calls']
                    prime(a)
                    if ACCESSOR_STATS['calls'] == calls:
                        no_getters = True          # nothing to call anywhere below this class: same as the plain round
                        break
                    hist['primed_pairs'] = hist.get('primed_pairs', 0) + 1
                allowed = set()      # ids of lxml elements that belong to the input document (shared by design)
                keep = []
                top_only = False
                try:
                    if op == 'deepcopy':
                        b = copy.deepcopy(a)
                    elif op == 'copy.copy':
                        b = copy.copy(a)
                        top_only = True
                    elif op == 'mk_copy':
                        b = a.mk_copy()
                    elif op == 'mk_copy(copy_node=True)':
                        a.node = doc_of(a)
                        b = a.mk_copy(copy_node=True)
                    elif op == 'from_node twice':
                        doc = doc_of(a)
                        allowed, keep = lxml_ids(doc)
                        a = X.parse(cls, doc)
                        b = X.parse(cls, doc)
                    elif op == 'from_node two documents':
                        b = X.parse(cls, doc_of(a))
                        a = X.parse(cls, doc_of(a))
                    elif op == 'update_from_node':
                        if not hasattr(a, 'update_from_node'):
                            continue
                        doc = doc_of(a)
                        allowed, keep = lxml_ids(doc)
                        b = X.construct(cls)
                        b.update_from_node(doc)
                        a = X.parse(cls, doc)
                    else:
                        b = X.construct(cls)
                        for hname in ('DescriptorHandle', 'Handle'):
                            if hasattr(a, hname):
                                setattr(b, hname, getattr(a, hname))
                        b.update_from_other_container(a)
                    for name, _ in X.class_props(type(b)):
                        getattr(b, name)
                    for name, _ in X.class_props(type(a)):
                        getattr(a, name)
                except Exception as ex:  # noqa: BLE001   generated value not serialisable / reader rejects: C05's business
                    hist['op_failed'][op] = hist['op_failed'].get(op, 0) + 1
                    continue
                hist['ops'][op] = hist['ops'].get(op, 0) + 1
                hist['pairs'] += 1
                judge_pair(fnd, hist, key, op, a, b, allowed, top_only, gen,
                           {'class': key, 'op': op, 'getters_of_the_source_called_before_the_operation': primed},
                           via=f'{op} [after the getters of a were called]' if primed else None)
    d1 = defaults_value()
    if d1 != d0:
        fnd.add('class default changed', 'any', '?', defaults_diff(d0, d1), 'a _default_py_value changed its value', {})
    return {'findings': fnd.items, 'finding_counts': {' | '.join(k): v for k, v in fnd.keys.items()},
            'keys': sorted(hist.pop('_keys', ())), 'hist': hist}


def judge_pair(fnd, hist, key, op, a, b, allowed, top_only, gen, rep, via=None, both=True):
    """a and b = op(a) share nothing (paths reported); in-place mutation of one leaves the other's value unchanged"""
    wa = walk(a)          # kept alive until the end: getters may hand out temporaries, a freed object's id is reused
    wa_ids = {id(v): p for p, _, v in wa}
    wb = walk(b)
    # elements of the input document may be referenced by everything parsed from it (by design)
    sh = [(wa_ids[id(v)], p, d, type(v).__name__) for p, d, v in wb
          if id(v) in wa_ids and not (is_lxml(v) and id(v) in allowed)]
    sh.sort(key=lambda t: (t[2], t[1]))
    hist['objects_compared'] += len(wb)
    hist.setdefault('_keys', set()).add(f'{key}|{via or op}|{len(wb)}|{len(sh)}')
    rep = dict(rep, via=via or op)
    if a is b:
        fnd.add('operation returned the same object', op, key, '',
                f'{key}: {via or op}: the object handed out IS the source object itself '
                f'({rep.get("container", "")}{" of entity " + str(rep["entity"]) if "entity" in rep else ""})', rep)
        return
    if top_only:
        # copy.copy is shallow by definition: only the top-level object must be a new one (rebinding stays private)
        hist['shared_objects_by_op'][op] = hist['shared_objects_by_op'].get(op, 0) + len(sh)
        s0 = snap(a)
        for name, p in X.class_props(type(b)):
            if isinstance(p, (xs._AttributeBase, xs.NodeTextProperty)) and \
                    not isinstance(p, (xs._AttributeListBase, xs.CurrentTimestampAttributeProperty)):  # noqa: SLF001
                try:
                    setattr(b, name, gen.value(type(b), name, p, 9))
                except Exception:  # noqa: BLE001
                    continue
                hist['mutations'] += 1
                if snap(a)[0] != s0[0]:
                    fnd.add('attribute write on a copy changed the original', op, key, '.' + name,
                            f'{key}: b = copy.copy(a); b.{name} = ..: a changed', rep)
                break
        return
    if sh:
        hist['shared_objects_by_op'][op] = hist['shared_objects_by_op'].get(op, 0) + len(sh)
        pa, pb, depth, tn = sh[0]
        fnd.add('result shares an object with its source', op, key, pb,
                f'{key}: after b = {via or op}(a): b{pb} IS a{pa} ({tn}); {len(sh)} shared object(s): '
                + ', '.join(t[1] for t in sh[:6]),
                dict(rep, path_in_result=pb, path_in_source=pa, depth=depth, all_shared_paths=[t[1] for t in sh[:40]]),
                kind=share_kind(op, depth, pb))
    shared_at = {'b': {pb: depth for _, pb, depth, _ in sh}, 'a': {pa: depth for pa, _, depth, _ in sh}}

    def explain(what, side):
        """depth of the shallowest shared object on the path of the mutated object (None: nothing shared there)"""
        mp = what.split(':')[0][1:]
        ds = [(d, p) for p, d in shared_at[side].items()
              if mp == p or mp.startswith(p + '.') or mp.startswith(p + '[')              # the object or an ancestor
              or (what.endswith('node = <new element>') and p == mp + '._property_instance_data')]
        return min(ds) if ds else None
    for side, (src, other) in (('b', (b, a)), ('a', (a, b)))[:2 if both else 1]:
        watch = Watch()
        watch.add('other', lambda other=other: snap(other))
        log = []

        def check(what, log=log, watch=watch, side=side):
            log.append(what)
            hist['watch_evaluations'] += 1
            for wl, diff in watch.changed():
                d = explain(what, side)
                kind = 'no shared object on that path' if d is None else share_kind(op, d[0], d[1])
                other_name = 'a' if side == 'b' else 'b'
                fnd.add('in-place change of one object visible in the other', op, key, what,
                        f'{key}: b = {via or op}(a); in-place {what} changed {other_name}: {diff}',
                        dict(rep, ops=[f'b = {via or op}(a)'] + list(log), changed=other_name, difference=diff),
                        kind=kind)
        m = Mutator(src, gen, check, side, allowed)
        hist['mutations'] += m.run()


def share_kind(op, depth, path):
    """what kind of object the two sides have in common (part of the finding signature)"""
    if '._property_instance_data' in path:
        return 'the storage of the observable node attribute'
    if op in ('update_from_other_container', 'entity.update'):
        if depth <= 1:
            return 'a member object handed over by reference'
        return 'nested objects below the copied member values'
    return 'a mutable object'


# --------------------------------------------------------------------------- entities of a provider mdib
def stream_mdib():
    import os
    from sdc11073.definitions_sdc import SdcV1Definitions
    from sdc11073.mdib.providermdib import ProviderMdib
    fnd = Findings()
    hist = {'entities': 0, 'multi_state_entities': 0, 'pairs': 0, 'mutations': 0, 'watch_evaluations': 0,
            'members_populated': 0, 'entity_update_raised': {}, 'context_states': 0, 'objects_compared': 0,
            'shared_objects_by_op': {}}
    path = os.path.join(os.environ.get('VERIF_REPO', '/repo'), 'tests', 'mdib_tns.xml')
    mdib = ProviderMdib.from_mdib_file(path, protocol_definition=SdcV1Definitions)
    gen = G.Gen(random.Random(RNG.randrange(1 << 30)), max_depth=2, max_list=2, exotic=0.0)
    # context states: created through the real transaction
    ctx_handles = [d.Handle for d in mdib.descriptions.objects if d.is_context_descriptor]
    for h in ctx_handles[:3]:
        with mdib.context_state_transaction() as mgr:
            mgr.mk_context_state(h, set_associated=True)
            mgr.mk_context_state(h)
    hist['context_states'] = len(mdib.context_states.objects)

    def internal():
        return list(mdib.descriptions.objects) + list(mdib.states.objects) + list(mdib.context_states.objects)
    # give the containers inside the mdib list / sub-element members (the file has hardly any)
    for c in internal():
        for name, p in X.class_props(type(c)):
            if isinstance(p, (xs._ElementListProperty, xs.SubElementProperty, xs.ExtensionNodeProperty)) and \
                    not isinstance(p, xs.SubElementHandleRefListProperty) and name not in ('Handle', 'DescriptorHandle'):  # noqa: SLF001
                raw = c.__dict__.get(p._local_var_name)  # noqa: SLF001
                if raw is None or (isinstance(raw, list) and not raw):
                    try:
                        setattr(c, name, gen.value(type(c), name, p, 0, mandatory=True, lo=1))
                        hist['members_populated'] += 1
                    except Exception:  # noqa: BLE001
                        pass

    # every descriptor has something its getter can hand out, and the provider has asked all of them (as at start)
    for c in mdib.descriptions.objects:
        c.set_retrievability([mdib.data_model.pm_types.Retrievability(
            [mdib.data_model.pm_types.RetrievabilityInfo(mdib.data_model.pm_types.RetrievabilityMethod.EPISODIC)])])
    mdib.xtra.update_retrievability_lists()

    def label(c):
        return f'{type(c).__name__}({getattr(c, "Handle", None) or getattr(c, "DescriptorHandle", None)})'

    def twin(c):
        if c.is_descriptor_container:
            return mdib.descriptions.handle.get_one(c.Handle)
        if getattr(c, 'is_context_state', False) or hasattr(c, 'Handle') and 'Handle' in [n for n, _ in X.class_props(type(c))]:
            return mdib.context_states.handle.get_one(c.Handle, allow_none=True)
        return mdib.states.descriptor_handle.get_one(c.DescriptorHandle)

    def judge_entity(entity, via):
        parts = [entity.descriptor] + (list(entity.states.values()) if entity.is_multi_state else [entity.state])
        for part in parts:
            orig = twin(part)
            if orig is None:
                continue
            hist['pairs'] += 1
            pvia = 'entity.update' if part is entity.descriptor and via.startswith('entity.update') else via
            judge_pair(fnd, hist, X.class_key(type(part)), OP_OF[via], orig, part, set(), False, gen,
                       {'entity': entity.handle, 'container': label(part), 'mdib_file': 'tests/mdib_tns.xml'}, via=pvia,
                       both=False)
    # 'entity.update' is a signature of its own: the known one-level copy of update_from_other_container does not
    # excuse an entity that shares objects with the mdib (Entity.update can take its values from a private copy)
    class _Abort(Exception):
        pass

    def judge_tx_getter(txn, getter, orig, via):
        """working copies handed out by a transaction (mk_copy of the mdib object): judged inside the transaction,
        which is then aborted"""
        try:
            with getattr(mdib, txn)() as mgr:
                part = getter(mgr)
                hist['pairs'] += 1
                hist['tx_getter_pairs'] = hist.get('tx_getter_pairs', 0) + 1
                judge_pair(fnd, hist, X.class_key(type(part)), 'transaction getter', orig, part, set(), False, gen,
                           {'container': label(part), 'mdib_file': 'tests/mdib_tns.xml'}, via=via, both=False)
                raise _Abort
        except _Abort:
            pass
        except Exception as ex:  # noqa: BLE001
            k = f'{via}: {type(ex).__name__}({str(ex)[:40]})'
            hist['entity_update_raised'][k] = hist['entity_update_raised'].get(k, 0) + 1
    for d in list(mdib.descriptions.objects):
        judge_tx_getter('descriptor_transaction', lambda mgr, d=d: mgr.get_descriptor(d.Handle), d,
                        'descriptor_transaction.get_descriptor')
    for st in list(mdib.states.objects):
        txn = next((n for flag, n in (('is_realtime_sample_array_metric_state', 'rt_sample_state_transaction'),
                                      ('is_metric_state', 'metric_state_transaction'),
                                      ('is_alert_state', 'alert_state_transaction'),
                                      ('is_component_state', 'component_state_transaction'),
                                      ('is_operational_state', 'operational_state_transaction'))
                    if getattr(st, flag, False)), None)
        if txn is not None:
            judge_tx_getter(txn, lambda mgr, st=st: mgr.get_state(st.DescriptorHandle), st, f'{txn}.get_state')
    for st in list(mdib.context_states.objects):
        judge_tx_getter('context_state_transaction', lambda mgr, st=st: mgr.get_context_state(st.Handle), st,
                        'context_state_transaction.get_context_state')
    OP_OF = {'entities.by_handle': 'entity getter', 'entity.update': 'entity.update',
             'entity.update [state refreshed with states.descriptor_handle.get_one]': 'entity.update',
             'entity.update of an entity that is older than the mdib': 'entity.update'}
    handles = [d.Handle for d in mdib.descriptions.objects]
    for h in handles:
        e = mdib.entities.by_handle(h)
        hist['entities'] += 1
        hist['multi_state_entities'] += e.is_multi_state
        judge_entity(e, 'entities.by_handle')
    for h in handles:
        e = mdib.entities.by_handle(h)
        via = 'entity.update'
        try:
            e.update()
        except Exception as ex:  # noqa: BLE001
            k = f'{type(e).__name__}: {type(ex).__name__}({str(ex)[:40]})'
            hist['entity_update_raised'][k] = hist['entity_update_raised'].get(k, 0) + 1
            if e.is_multi_state:
                continue
            # Entity.update() cannot finish (it asks states.get_one, which does not exist): do what it means to do
            via = 'entity.update [state refreshed with states.descriptor_handle.get_one]'
            e.state.update_from_other_container(mdib.states.descriptor_handle.get_one(h))
        judge_entity(e, via)
    # entities that are OLDER than the mdib: read, then transactions add / change / remove states, then update()
    hist['stale_entities'] = 0
    hist['stale_states_added'] = 0
    pm_types = mdib.data_model.pm_types
    for h in ctx_handles[:3]:
        with mdib.context_state_transaction() as mgr:
            doomed = mgr.mk_context_state(h).Handle
        old = mdib.entities.by_handle(h)
        known = set(old.states)
        with mdib.context_state_transaction() as mgr:
            new_state = mgr.mk_context_state(h)
            new_state.Identification = [pm_types.InstanceIdentifier('urn:verif:c12', extension_string='new')]
            new_state.Validator = [pm_types.InstanceIdentifier('urn:verif:c12', extension_string='validator')]
            changed = mgr.get_context_state(next(x for x in sorted(known) if x != doomed))
            changed.Identification = [pm_types.InstanceIdentifier('urn:verif:c12', extension_string='changed')]
        remover = mdib.entities.by_handle(h)
        remover.states.pop(doomed)
        with mdib.context_state_transaction() as mgr:
            mgr.write_entity(remover, [doomed])
        try:
            old.update()
        except Exception as ex:  # noqa: BLE001
            k = f'stale {type(old).__name__}: {type(ex).__name__}({str(ex)[:40]})'
            hist['entity_update_raised'][k] = hist['entity_update_raised'].get(k, 0) + 1
            continue
        hist['stale_entities'] += 1
        hist['stale_states_added'] += len(set(old.states) - known)
        if doomed in old.states or new_state.Handle not in old.states:
            fnd.add('refreshed entity does not follow the mdib', 'entity.update', X.class_key(type(old.descriptor)), '',
                    f'entity {h}: after update() states = {sorted(old.states)}, mdib has '
                    f'{sorted(x.Handle for x in mdib.context_states.descriptor_handle.get(h, []))}', {'entity': h})
        judge_entity(old, 'entity.update of an entity that is older than the mdib')
    singles = [x for x in handles if x not in ctx_handles]
    RNG.shuffle(singles)
    for h in singles[:12]:
        old = mdib.entities.by_handle(h)
        if old is None or old.is_multi_state:
            continue
        st = mdib.states.descriptor_handle.get_one(h)
        txn = next((n for flag, n in (('is_realtime_sample_array_metric_state', 'rt_sample_state_transaction'),
                                      ('is_metric_state', 'metric_state_transaction'),
                                      ('is_alert_state', 'alert_state_transaction'),
                                      ('is_component_state', 'component_state_transaction'),
                                      ('is_operational_state', 'operational_state_transaction'))
                    if getattr(st, flag, False)), None)
        if txn is None:
            continue
        try:
            with getattr(mdib, txn)() as mgr:
                s2 = mgr.get_state(h)
                s2.Extension.append(etree.Element('{urn:verif:c12}changed'))
            old.update()
        except Exception as ex:  # noqa: BLE001
            k = f'stale {type(old).__name__}: {type(ex).__name__}({str(ex)[:40]})'
            hist['entity_update_raised'][k] = hist['entity_update_raised'].get(k, 0) + 1
            continue
        hist['stale_entities'] += 1
        judge_entity(old, 'entity.update of an entity that is older than the mdib')
    return {'findings': fnd.items, 'finding_counts': {' | '.join(k): v for k, v in fnd.keys.items()},
            'keys': sorted(hist.pop('_keys', ())), 'hist': hist}


# --------------------------------------------------------------------------- the containers INSIDE a set-up mdib
def table_containers(mdib, prefix=''):
    out = []
    for tname in ('descriptions', 'states', 'context_states'):
        for c in getattr(mdib, tname).objects:
            h = getattr(c, 'Handle', None) if tname != 'states' else None
            out.append((f'{prefix}{tname}[{h or getattr(c, "DescriptorHandle", None)}] {type(c).__name__}', c))
    return out


def judge_tables(fnd, hist, mdibs, mdib_file, stage, reported=None):
    """no mutable object is reachable from two different containers of the tables (descriptions, states,
    context_states) of the given mdib(s); by design: state.descriptor_container, the element `node` points to"""
    owner = {}
    n_obj = 0
    conts = [x for prefix, m in mdibs for x in table_containers(m, prefix)]
    roots = {id(c) for _, c in conts}
    alive = []            # getters may hand out temporaries: keep everything visited alive, a freed object's id is reused
    for label, c in conts:
        alive.append(walk(c))
        for p, d, v in alive[-1]:
            n_obj += 1
            o = owner.get(id(v))
            if o is None:
                owner[id(v)] = (label, p)
            elif o[0] != label:
                if reported is not None:
                    if id(v) in reported:          # already reported at the stage where it first appeared
                        continue
                    reported[id(v)] = v
                hist.setdefault('_flagged', set()).update((label, o[0]))
                what = 'a container of the mdib is reachable from another container' if id(v) in roots else \
                    'two containers of an mdib share a mutable object'
                fnd.add(what, stage, X.class_key(type(c)), p,
                        f'{mdib_file} after {stage}: {label}{p} ({type(v).__name__}) IS {o[0]}{o[1]}',
                        {'mdib_file': mdib_file, 'stage': stage, 'container': label, 'path': p,
                         'same_object_as': f'{o[0]}{o[1]}',
                         'ops': [f'mdib = {stage}', f'a = {o[0]}', f'b = {label}', f'assert b{p} is not a{o[1]}']})
    hist['containers'] += len(conts)
    hist['objects_registered'] += n_obj
    hist['stages'][stage] = hist['stages'].get(stage, 0) + 1
    hist.setdefault('_keys', set()).add(f'{mdib_file}|{stage}|{len(conts)}|{n_obj}')
    return conts


def sweep_tables(fnd, hist, conts, mdib_file, stage, gen, k):
    """in-place mutation of everything reachable from one container leaves the value of all the others unchanged"""
    order = list(range(len(conts)))
    RNG.shuffle(order)
    # the richest container (most nested mutable objects) of every class, richest classes first; then random ones
    size = {i: len(walk(conts[i][1])) for i in order}
    best = {}
    for i in order:
        t = type(conts[i][1])
        if t not in best or size[i] > size[best[t]]:
            best[t] = i
    flagged = hist.get('_flagged', set())
    pick = [i for i in order if conts[i][0] in flagged][:max(1, k // 2)]      # confirm identity findings by value
    pick += [i for i in sorted(best.values(), key=lambda i: -size[i]) if i not in pick][:max(1, k // 2)]
    pick = (pick + [i for i in order if i not in pick])[:max(k, len(pick))]
    snaps = [snap(c) for _, c in conts]
    for i in pick:
        label, c = conts[i]
        log = []
        m = Mutator(c, gen, log.append, label)
        try:
            hist['mutations'] += m.run()
        except Exception as ex:  # noqa: BLE001
            hist['sweep_failed'] = hist.get('sweep_failed', 0) + 1
            log.append(f'(mutation sweep stopped: {type(ex).__name__})')
        for j, (lj, cj) in enumerate(conts):
            if j == i:
                snaps[j] = snap(cj)
                continue
            hist['watch_evaluations'] += 1
            sj = snap(cj)
            if sj != snaps[j]:
                fnd.add('in-place change of one container of the mdib visible in another', stage, X.class_key(type(c)),
                        label, f'{mdib_file} after {stage}: in-place mutation of {label} changed {lj}: '
                        f'{snap_diff(snaps[j], sj)}',
                        {'mdib_file': mdib_file, 'stage': stage, 'mutated': label, 'changed': lj,
                         'difference': snap_diff(snaps[j], sj), 'ops': log[:60]})
                snaps[j] = sj


def stream_tables():
    import os
    import pathlib
    from sdc11073.definitions_sdc import SdcV1Definitions
    from sdc11073.location import SdcLocation
    from sdc11073.mdib.providermdib import ProviderMdib
    fnd = Findings()
    hist = {'files': 0, 'containers': 0, 'objects_registered': 0, 'stages': {}, 'stage_failed': {}, 'mutations': 0,
            'watch_evaluations': 0, 'alert_systems': {}, 'worlds': 0}
    gen = G.Gen(random.Random(RNG.randrange(1 << 30)), max_depth=2, max_list=2, exotic=0.0)
    tests = pathlib.Path(os.environ.get('VERIF_REPO', '/repo')) / 'tests'
    files = sorted(f.name for f in tests.glob('*.xml') if b'Mdib' in f.read_bytes()[:4000])
    if req.get('table_files'):
        files = [f for f in files if f in req['table_files']]
    k = req.get('table_sweep', 8)

    def attempt(mdib_file, stage, f):
        try:
            return f()
        except Exception as ex:  # noqa: BLE001   this file / this set-up does not support the step: counted, not judged
            key = f'{mdib_file}: {stage}: {type(ex).__name__}({str(ex)[:60]})'
            hist['stage_failed'][key] = hist['stage_failed'].get(key, 0) + 1
            return None

    for mdib_file in files:
        hist['files'] += 1
        reported = {}
        data = (tests / mdib_file).read_bytes()
        a = attempt(mdib_file, 'from_mdib_file', lambda: ProviderMdib.from_mdib_file(str(tests / mdib_file),
                                                                                     protocol_definition=SdcV1Definitions))
        if a is None:
            continue
        hist['alert_systems'][mdib_file] = sum(1 for d in a.descriptions.objects
                                               if d.NODETYPE.localname == 'AlertSystemDescriptor')
        judge_tables(fnd, hist, [('', a)], mdib_file, 'ProviderMdib.from_mdib_file', reported)
        b = attempt(mdib_file, 'from_string', lambda: ProviderMdib.from_string(data))
        if b is not None:
            judge_tables(fnd, hist, [('', b)], mdib_file, 'ProviderMdib.from_string', reported)
            judge_tables(fnd, hist, [('A.', a), ('B.', b)], mdib_file, 'two mdibs read from the same bytes', reported)
        for name in ('ensure_location_context_descriptor', 'ensure_patient_context_descriptor',
                     'mk_state_containers_for_all_descriptors', 'set_states_initial_values',
                     'update_retrievability_lists', 'set_all_source_mds'):
            if attempt(mdib_file, f'xtra.{name}', lambda name=name: (getattr(a.xtra, name)(), True)) is not None:
                judge_tables(fnd, hist, [('', a)], mdib_file, f'xtra.{name}', reported)
        loc_descrs = [d.Handle for d in a.descriptions.objects if d.NODETYPE.localname == 'LocationContextDescriptor']
        for n, h in enumerate(loc_descrs * 2):
            attempt(mdib_file, 'xtra.set_location', lambda n=n, h=h: a.xtra.set_location(
                SdcLocation(fac='f', poc=f'p{n}', bed='b'), location_context_descriptor_handle=h))
        for d in [d for d in a.descriptions.objects if d.is_context_descriptor]:
            def mk(d=d):
                with a.context_state_transaction() as mgr:
                    mgr.mk_context_state(d.Handle, set_associated=True)
                    mgr.mk_context_state(d.Handle)
            attempt(mdib_file, 'context_state_transaction', mk)
        conts = judge_tables(fnd, hist, [('', a)], mdib_file, 'xtra.set_location + context state transactions', reported)
        sweep_tables(fnd, hist, conts, mdib_file, 'ProviderMdib set-up (from_mdib_file, xtra methods, set_location)', gen, k)
    # a started provider (tests.mockstuff.SomeDevice with the tutorial role providers) and a consumer mdib
    world_files = [f for f in files if f in req.get('world_files', files)]
    for mdib_file in world_files:
        def start(mdib_file=mdib_file):
            from world import World
            return World(mdib_file=mdib_file)
        w = attempt(mdib_file, 'SdcProvider start', start)
        if w is None:
            continue
        hist['worlds'] += 1
        reported = {}
        pm = w.provider.mdib
        judge_tables(fnd, hist, [('', pm)], mdib_file, 'SdcProvider.start_all (tutorial role providers)', reported)
        attempt(mdib_file, 'SdcProvider.set_location', lambda: w.provider.set_location(SdcLocation(fac='f', poc='p', bed='b')))
        attempt(mdib_file, 'SdcProvider.set_location', lambda: w.provider.set_location(SdcLocation(fac='f', poc='q', bed='b')))
        judge_tables(fnd, hist, [('', pm)], mdib_file, 'SdcProvider.set_location', reported)
        cm = attempt(mdib_file, 'ConsumerMdib.init_mdib', lambda: w.consumer_mdib(w.add_consumer()))
        if cm is not None:
            judge_tables(fnd, hist, [('', cm)], mdib_file, 'ConsumerMdib.init_mdib', reported)
            judge_tables(fnd, hist, [('provider.', pm), ('consumer.', cm)], mdib_file, 'provider mdib and consumer mdib', reported)

            def reports():
                pmt = pm.data_model.pm_types
                for tname, flag in (('metric_state_transaction', 'is_metric_state'), ('alert_state_transaction', 'is_alert_state'),
                                    ('component_state_transaction', 'is_component_state')):
                    hs = [s.DescriptorHandle for s in pm.states.objects if getattr(s, flag, False)
                          and not getattr(s, 'is_realtime_sample_array_metric_state', False)][:6]
                    with getattr(pm, tname)() as mgr:
                        for h in hs:
                            mgr.get_state(h).Extension.append(etree.Element('{urn:verif:c12}report'))
                for d in [d for d in pm.descriptions.objects if d.NODETYPE.localname == 'PatientContextDescriptor']:
                    with pm.context_state_transaction() as mgr:
                        st = mgr.mk_context_state(d.Handle, set_associated=True)
                        st.Identification = [pmt.InstanceIdentifier('urn:verif:c12', extension_string='1')]
                return True
            if attempt(mdib_file, 'reports', reports):
                judge_tables(fnd, hist, [('', pm)], mdib_file, 'provider mdib after state transactions', reported)
                conts = judge_tables(fnd, hist, [('', cm)], mdib_file, 'consumer mdib after reports', reported)
                sweep_tables(fnd, hist, conts, mdib_file, 'consumer mdib after reports', gen, k)
        conts = table_containers(pm)
        sweep_tables(fnd, hist, conts, mdib_file, 'started provider mdib', gen, k)
        attempt(mdib_file, 'stop', w.stop)
    hist.pop('_flagged', None)
    return {'findings': fnd.items, 'finding_counts': {' | '.join(k2): v for k2, v in fnd.keys.items()},
            'keys': sorted(hist.pop('_keys', ())), 'hist': hist}


def guarded(f):
    try:
        return f()
    except Exception:  # noqa: BLE001
        return {'crash': traceback.format_exc()[-2500:]}


out = {'n_classes': len(CLASSES), 'broken_classes': BROKEN}
if req.get('ctor', True):
    out['ctor'] = guarded(stream_ctor)
if req.get('sep', True):
    out['sep'] = guarded(stream_sep)
if req.get('mdib', True):
    out['mdib'] = guarded(stream_mdib)
if req.get('tables', False):
    out['tables'] = guarded(stream_tables)
out['opaque_types'] = OPAQUE
out['accessors'] = ACCESSOR_STATS
print(json.dumps(out, default=str))
sys.stdout.flush()
if req.get('tables', False):
    import os
    os._exit(0)      # provider / consumer worker threads would delay the exit
