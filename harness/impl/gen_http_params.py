"""Translator: emits coq/Http/Gen_Params.v from httpserver/httpreader.py and compression.py (fail-closed).

Constants the C17/C13 theorems are instantiated with:
  hdr_max               max_bytes default of HTTPReader._read_until (bytes of a chunk-size line incl. CRLF)
  available_encodings   CompressionHandler.available_encodings (registration order)
Structural facts checked on the source (anything else: fail-closed):
  CR_LF == b'\\r\\n'; _read_dechunk calls cls._read_until(stream, CR_LF) with the default max_bytes;
  mk_chunks' default chunk size is a positive int.
"""
import ast
import inspect
import json
import sys
import textwrap

from sdc11073.httpserver import compression, httpreader

json.load(sys.stdin)


def fail(msg):
    raise SystemExit('fail-closed: ' + msg)


if httpreader.CR_LF != b'\r\n':
    fail(f'CR_LF is {httpreader.CR_LF!r}')

defaults = httpreader.HTTPReader._read_until.__defaults__
if not defaults or len(defaults) != 1 or not isinstance(defaults[0], int) or isinstance(defaults[0], bool):
    fail(f'_read_until defaults are {defaults!r}')
hdr_max = defaults[0]
if not 3 <= hdr_max <= 64:
    fail(f'max_bytes={hdr_max} outside the translatable range 3..64')

src = textwrap.dedent(inspect.getsource(httpreader.HTTPReader._read_dechunk.__func__))
calls = [n for n in ast.walk(ast.parse(src)) if isinstance(n, ast.Call) and isinstance(n.func, ast.Attribute)
         and n.func.attr == '_read_until']
if len(calls) != 1:
    fail(f'{len(calls)} calls of _read_until in _read_dechunk')
c = calls[0]
if c.keywords or len(c.args) != 2 or not (isinstance(c.args[1], ast.Name) and c.args[1].id == 'CR_LF'):
    fail('_read_dechunk does not call _read_until(stream, CR_LF) with the default max_bytes')

mk_def = httpreader.mk_chunks.__defaults__
if not mk_def or not isinstance(mk_def[0], int) or mk_def[0] < 1:
    fail(f'mk_chunks default chunk size is {mk_def!r}')

encs = list(compression.CompressionHandler.available_encodings)
if not all(isinstance(e, str) and e.isascii() and e == e.lower() and e for e in encs) or len(set(encs)) != len(encs):
    fail(f'available_encodings not a list of distinct lower-case ascii names: {encs!r}')
for e in encs:
    if compression.CompressionHandler.handlers.get(e) is None:
        fail(f'no handler registered under {e!r}')


def blit(s):
    return '[' + '; '.join(str(b) for b in s.encode()) + ']'


strict = getattr(httpreader, 'HEX_DIGITS', None)
text = f'''(* GENERATED on every run by harness/impl/gen_http_params.py from
   src/sdc11073/httpserver/httpreader.py and compression.py -- do not edit. *)
From Coq Require Import List NArith.
From SDC Require Import Http.Chunk.
Import ListNotations.
Open Scope N_scope.
Definition hdr_max : nat := {hdr_max}%nat.
Definition available_encodings : list bytes := [{'; '.join(blit(e) for e in encs)}].
'''
print(json.dumps({'rel': 'Http/Gen_Params.v', 'text': text, 'hdr_max': hdr_max, 'encodings': encs,
                  'strict_hex_check_present': strict == b'0123456789abcdefABCDEF'}))
