"""Implementation side of C11 (stream `table`): op lists on a real MultiKeyLookup with stub objects."""
import json
import sys

from sdc11073 import multikey

req = json.load(sys.stdin)


class Stub:
    def __init__(self, oid, n):
        self.oid = oid
        self.vals = [['err']] * n

    def key(self, i):
        v = self.vals[i]
        if v[0] == 'err':
            raise AttributeError('no such attribute')
        if v[0] == 'none':
            return None
        if v[0] == 'one':
            return v[1]
        return list(v[1])

    def __repr__(self):
        return f'Stub({self.oid})'


REAL = {}


class AStub:
    """stub with real attribute names for the MDIB tables (DescriptorsLookup, StatesLookup, ...)"""

    def __init__(self, oid, names):
        self.oid = oid
        self.__dict__['names'] = names
        self.vals = [['none']] * len(names)
        self.DescriptorVersion = 0
        self.StateVersion = 0
        self.is_multi_state = False       # read by StatesLookup.add_object_no_lock

    def key(self, i):
        return Stub.key(self, i)

    def __getattr__(self, name):
        names = self.__dict__.get('names', [])
        if name in names:
            return self.key(names.index(name))
        raise AttributeError(name)

    def __repr__(self):
        return f'AStub({self.oid})'


def mk_real_table(name):
    from sdc11073.mdib import mdibbase
    cls = {'descriptors': mdibbase.DescriptorsLookup, 'states': mdibbase.StatesLookup,
           'multistates': mdibbase.MultiStatesLookup}[name]
    return cls()


def mk_table(kinds):
    t = multikey.MultiKeyLookup()
    for i, (kd, nk) in enumerate(kinds):
        cls = {'plain': multikey.IndexDefinition, 'unique': multikey.UIndexDefinition,
               'onen': multikey.IndexDefinition1n}[kd]
        t.add_index(f'ix{i}', cls(lambda obj, i=i: obj.key(i), index_none_values=nk))
    return t


def observe(t, kinds, keys, stubs):
    objs = sorted(o.oid for o in t.objects)
    idx = []
    ixs = list(t._idx_defs.values())
    if len(ixs) != len(kinds):
        raise SystemExit('number of indices differs from the generated kinds')
    for i in range(len(kinds)):
        ix = ixs[i]
        per_key = []
        for k in keys:
            per_key.append([o.oid for o in dict.get(ix, k, [])])
        # keys outside the universe or empty lists kept in the dict are reported as an anomaly
        extra = [repr(k) for k, v in dict.items(ix) if k not in keys or not v]
        if extra:
            per_key.append([-99])
        idx.append(per_key)
    refs = []
    for s in stubs:
        r = t._object_ids.get(id(s)) if id(s) in t._object_ids else None
        if r is None:
            refs.append([[-2, -2]])
        else:
            names = {id(ix): i for i, ix in enumerate(ixs)}
            refs.append([[names[id(x.index_dict)], -1 if x.key is None else x.key] for x in r])
    return [objs, len(t.objects), idx, refs]


def versions(t, stubs):
    """side table of the MDIB lookups (handle -> last version) and the version attributes of the stubs"""
    hvl = t.__dict__.get('handle_version_lookup')
    if hvl is None:
        return None
    items = sorted([[-1 if k is None else k, v] for k, v in hvl.items()])
    return {'hvl': items, 'ver': [[s.DescriptorVersion, s.StateVersion] for s in stubs]}


def run_case(case):
    kinds, nobj, ops, keys = case['kinds'], case['nobj'], case['ops'], case['keys']
    keys = [None if k == -1 else k for k in keys]
    if case.get('table'):
        t = mk_real_table(case['table'])
        stubs = [AStub(i, case['attr_names']) for i in range(nobj)]
    else:
        t = mk_table(kinds)
        stubs = [Stub(i, len(kinds)) for i in range(nobj)]

    def obj(o):
        return None if o == -1 else stubs[o]

    trace = []
    for op in ops:
        code = 0
        try:
            if op[0] in ('add', 'remove', 'update', 'setver'):
                getattr(t, op[2])(obj(op[1]))        # the entry point is named by the op
            elif op[0] in ('addm', 'removem', 'updatem'):
                getattr(t, op[2])([obj(o) for o in op[1]])
            elif op[0] == 'clear':
                t.clear()
            elif op[0] == 'bump':
                stubs[op[1]].DescriptorVersion += op[2]
                stubs[op[1]].StateVersion += op[2]
            elif op[0] == 'set':
                vals = list(stubs[op[1]].vals)
                vals[op[2]] = op[3]
                stubs[op[1]].vals = vals
            else:
                raise SystemExit(f'unknown op {op[0]}')
        except KeyError:
            code = 1
        except ValueError as ex:
            code = 2 if 'not known' in str(ex) else 1
        except Exception as ex:  # noqa: BLE001
            code = 9
        trace.append([code, observe(t, kinds, keys, stubs), versions(t, stubs)])
    return trace


print(json.dumps({'traces': [run_case(c) for c in req['cases']]}))
