"""In-process loop-back world: real SdcProvider + real SdcConsumer, no sockets, no wall clock.

Every SOAP exchange crosses the REAL client code (SoapClient.post_message_to / _send_soap_request:
serialisation, schema validation, compression, chunking), the REAL HTTP request handler
(DispatchingRequestHandler.do_POST/do_GET with HTTPReader) and the REAL MessageConverterMiddleware;
only the TCP connection is replaced: FakeConnection renders the raw HTTP request bytes, runs the
request handler on a fake socket, and parses the raw HTTP response bytes with http.client.

The Net object is the wire: it logs every exchange and is the fault injector (a hook may drop,
duplicate, delay or fail an exchange).

Usage (inside harness/impl/*.py, PYTHONPATH has $VERIF_REPO/src:$VERIF_REPO:/verif/harness):
    from world import World
    w = World(mdib_file='70041_MDIB_Final.xml')         # provider started, nothing subscribed
    cons = w.add_consumer()                             # SdcConsumer started + subscribed (all services)
    mdib = w.consumer_mdib(cons)                        # ConsumerMdib.init_mdib() done
    with w.provider.mdib.metric_state_transaction() as tr: ...
    w.net.log                                           # list of Exchange records
"""
from __future__ import annotations

import http.client
import io
import logging
import os
import threading
import uuid
from dataclasses import dataclass, field
from pathlib import Path

import sdc11073.definitions_sdc  # noqa: F401  registers the protocol
from sdc11073 import loghelper
from sdc11073.dispatch import PathElementRegistry, RequestDispatcher
from sdc11073.httpserver.httprequesthandler import DispatchingRequestHandler
from sdc11073.pysoap.soapclient import SoapClient

REPO = Path(os.environ.get('VERIF_REPO', '/repo'))


@dataclass
class Exchange:
    n: int
    client: str            # netloc of the sender ('consumer:1' / provider client name)
    netloc: str            # destination
    method: str
    path: str
    request: bytes         # raw HTTP request bytes (headers + body as sent)
    body: bytes            # decoded request body (after de-chunk / decompress is NOT applied: raw body)
    status: int | None = None
    response: bytes = b''  # raw HTTP response bytes
    outcome: str = 'ok'    # ok | dropped | refused | timeout | http_error
    headers: dict = field(default_factory=dict)

    def decoded_body(self) -> bytes:
        """request body after de-chunking and decompression (what the peer's handler sees)"""
        from sdc11073.httpserver.compression import CompressionHandler
        h = {k.lower(): v for k, v in self.headers.items()}
        data = self.body
        if 'chunked' in h.get('transfer-encoding', ''):
            out, rest = b'', data
            while rest:
                line, _, rest = rest.partition(b'\r\n')
                n = int(line.split(b';')[0], 16)
                if n == 0:
                    break
                out, rest = out + rest[:n], rest[n + 2:]
            data = out
        enc = h.get('content-encoding')
        if enc:
            data = CompressionHandler.decompress_payload(enc, data)
        return data


class ConnectionRefused(OSError):
    pass


class Net:
    """registry of fake http servers + exchange log + fault hook"""

    def __init__(self):
        self.servers: dict[str, FakeHttpServer] = {}
        self.log: list[Exchange] = []
        self.hook = None          # callable(Exchange) -> None | 'drop' | 'refuse' | 'timeout' | ('status', code) | 'dup'
        self.lock = threading.RLock()
        self._port = 20000

    def new_port(self) -> int:
        with self.lock:
            self._port += 1
            return self._port

    def register(self, server):
        self.servers[server.netloc] = server

    def unregister(self, server):
        self.servers.pop(server.netloc, None)


class _FakeSocket:
    """what BaseHTTPRequestHandler needs from a socket"""

    def __init__(self, data: bytes, peer):
        self._in = io.BytesIO(data)
        self.out = io.BytesIO()
        self._peer = peer

    def makefile(self, mode='rb', bufsize=-1):
        if 'r' in mode:
            return self._in
        return self.out

    def sendall(self, data):
        self.out.write(data)

    def getpeername(self):
        return self._peer

    def getsockname(self):
        return self._peer

    def settimeout(self, _):
        pass

    def setsockopt(self, *a):
        pass

    def close(self):
        pass

    def shutdown(self, *a):
        pass


class _RespSocket:
    def __init__(self, data: bytes):
        self._f = io.BytesIO(data)

    def makefile(self, *a, **k):
        return self._f


class FakeHttpServer:
    """stands in for HttpServerThreadBase (shared_http_server=...) and for its httpd"""

    def __init__(self, net: Net, ip='127.0.0.1', scheme='http', supported_encodings=(), chunk_size=0):
        self.net = net
        self.ip = ip
        self.server_port = net.new_port()
        self.netloc = f'{ip}:{self.server_port}'
        self.base_url = f'{scheme}://{self.netloc}/'
        self.dispatcher = PathElementRegistry()
        self.started_evt = threading.Event()
        self.started_evt.set()
        self.supported_encodings = list(supported_encodings)
        self.chunk_size = chunk_size
        self.logger = loghelper.get_logger_adapter('sdc.verif.httpsrv')
        self.stopped = False
        net.register(self)

    # HttpServerThreadBase interface
    def start(self):
        pass

    def stop(self):
        self.stopped = True
        self.net.unregister(self)

    def join(self, *a):
        pass

    def is_alive(self):
        return not self.stopped

    def handle_raw(self, raw: bytes, peer) -> bytes:
        """run the REAL request handler on raw HTTP request bytes; returns raw HTTP response bytes"""
        sock = _FakeSocket(raw, peer)
        DispatchingRequestHandler(sock, peer, self)
        return sock.out.getvalue()


class FakeConnection:
    """stands in for http.client.HTTPConnection inside the real SoapClient"""

    def __init__(self, net: Net, netloc: str, client_name: str, ssl_context=None):
        self.net = net
        self.netloc = netloc
        self.client_name = client_name
        self.ssl_context = ssl_context
        self.sock = None
        self._resp = None
        self._port = net.new_port()

    def connect(self):
        if self.netloc not in self.net.servers:
            raise ConnectionRefused(111, f'connection refused: {self.netloc}')
        self.sock = _FakeSocket(b'', ('127.0.0.1', self._port))

    def close(self):
        self.sock = None

    def request(self, method, url, body=None, headers=None):
        headers = dict(headers or {})
        lines = [f'{method} {url} HTTP/1.1']
        if not any(k.lower() == 'host' for k in headers):
            lines.append(f'Host: {self.netloc}')
        if not any(k.lower() == 'accept-encoding' for k in headers):
            lines.append('Accept-Encoding: identity')
        for k, v in headers.items():
            lines.append(f'{k}: {v}')
        body = body or b''
        if isinstance(body, str):
            body = body.encode('utf-8')
        raw = ('\r\n'.join(lines) + '\r\n\r\n').encode('iso-8859-1') + body
        with self.net.lock:
            ex = Exchange(len(self.net.log), self.client_name, self.netloc, method, url, raw, body, headers=headers)
            self.net.log.append(ex)
        verdict = self.net.hook(ex) if self.net.hook else None
        server = self.net.servers.get(self.netloc)
        if verdict == 'refuse' or server is None:
            ex.outcome = 'refused'
            self.sock = None
            raise ConnectionRefused(111, f'connection refused: {self.netloc}')
        if verdict == 'timeout':
            ex.outcome = 'timeout'
            raise TimeoutError('timed out')
        if verdict == 'drop':           # request lost, peer never sees it; the client sees a time-out
            ex.outcome = 'dropped'
            raise TimeoutError('timed out')
        if isinstance(verdict, tuple) and verdict[0] == 'status':
            ex.outcome = 'http_error'
            ex.status = verdict[1]
            ex.response = (f'HTTP/1.1 {verdict[1]} injected\r\nContent-Length: 0\r\n\r\n').encode()
        else:
            ex.response = server.handle_raw(raw, ('127.0.0.1', self._port))
            if verdict == 'dup':        # the peer processes the same request twice
                server.handle_raw(raw, ('127.0.0.1', self._port))
        self._resp = ex

    def getresponse(self):
        ex = self._resp
        r = http.client.HTTPResponse(_RespSocket(ex.response), method=ex.method)
        r.begin()
        ex.status = r.status
        return r


class LoopClient(SoapClient):
    """the real SoapClient with the TCP connection replaced"""

    net: Net = None            # set by World
    created: list = []         # (netloc, ssl_context is not None) of every client constructed
    _names = 0

    def __init__(self, netloc, socket_timeout, logger, ssl_context, sdc_definitions, msg_reader,
                 supported_encodings=None, request_encodings=None, chunk_size=0):
        super().__init__(netloc, socket_timeout, logger, ssl_context, sdc_definitions, msg_reader,
                         supported_encodings, request_encodings, chunk_size)
        LoopClient._names += 1
        self.client_name = f'client{LoopClient._names}'
        LoopClient.created.append({'netloc': netloc, 'tls': ssl_context is not None, 'name': self.client_name})

    def _mk_http_connection(self):
        return FakeConnection(self.net, self._netloc, self.client_name, self._ssl_context)


class MockWsDiscovery:
    def __init__(self, ip='127.0.0.1'):
        self._ip = ip
        self.published = []
        self.cleared = []

    @property
    def active_address(self):
        return self._ip

    def clear_service(self, epr):
        self.cleared.append(epr)

    def publish_service(self, epr, types, scopes, x_addrs):
        self.published.append((epr, types, scopes, x_addrs))

    def get_active_addresses(self):
        return [self._ip]


class World:
    def __init__(self, mdib_file='70041_MDIB_Final.xml', mdib_bytes: bytes | None = None,
                 provider_kwargs=None, async_subscriptions=False, start=True,
                 ssl_context_container=None, shared_scheme=None, max_subscription_duration=15):
        from sdc11073.provider.providerimpl import provider_components_async_factory, provider_components_sync_factory
        from tests import mockstuff
        from tutorial.productandroles import alarmprovider
        # the tutorial AlertSystemStateMaintainer runs a periodic self-check transaction in a worker thread (every
        # second of real time it looks whether one is due): it would interleave nondeterministically with the histories
        # the harness drives (observed: 4 of 4482 cases of a thorough C03 run blamed an aborted transaction for it)
        alarmprovider.AlertSystemStateMaintainer.WORKER_THREAD_INTERVAL = 36000.0
        logging.getLogger('sdc').setLevel(logging.CRITICAL)
        self.net = Net()
        LoopClient.net = self.net
        LoopClient.created = []
        self.wsd = MockWsDiscovery()
        comp = provider_components_async_factory() if async_subscriptions else provider_components_sync_factory()
        if not async_subscriptions:
            comp.soap_client_class = LoopClient
        self.provider_components = comp
        if mdib_bytes is None:
            mdib_bytes = (REPO / 'tests' / mdib_file).read_bytes()
        kw = dict(provider_kwargs or {})
        self.provider = mockstuff.SomeDevice(self.wsd, mdib_bytes, uuid.UUID(int=0x1234), components=comp,
                                             ssl_context_container=ssl_context_container,
                                             max_subscription_duration=max_subscription_duration, **kw)
        scheme = shared_scheme or ('https' if ssl_context_container is not None else 'http')
        self.provider_server = FakeHttpServer(self.net, scheme=scheme)
        self.consumers = []
        if start:
            self.provider.start_all(start_rtsample_loop=False, shared_http_server=self.provider_server)

    def add_consumer(self, subscribe=True, sync_dispatch=True, ssl_context_container=None, **start_kw):
        from sdc11073.consumer.consumerimpl import SdcConsumer
        from sdc11073.consumer.consumerimpl import default_components_factory
        from sdc11073.definitions_sdc import SdcV1Definitions
        cc = default_components_factory()
        cc.soap_client_class = LoopClient
        if sync_dispatch:
            cc.action_dispatcher_class = RequestDispatcher
        x_addr = self.provider.get_xaddrs()[0]
        cons = SdcConsumer(x_addr, sdc_definitions=SdcV1Definitions, ssl_context_container=ssl_context_container,
                           validate=True, components=cc)
        scheme = 'https' if ssl_context_container is not None else 'http'
        srv = FakeHttpServer(self.net, scheme=scheme)
        cons._verif_server = srv
        if subscribe:
            cons.start_all(shared_http_server=srv, **start_kw)
        self.consumers.append(cons)
        return cons

    def consumer_mdib(self, cons):
        from sdc11073.mdib.consumermdib import ConsumerMdib
        mdib = ConsumerMdib(cons)
        mdib.init_mdib()
        return mdib

    def stop(self):
        for c in self.consumers:
            try:
                c.stop_all(unsubscribe=False)
            except Exception:  # noqa: BLE001
                pass
        try:
            self.provider.stop_all(send_subscription_end=False)
        except Exception:  # noqa: BLE001
            pass


def _copy_components(comp):
    import copy
    return copy.copy(comp)
