"""Common machinery of the /verif checks (see DESIGN.md section 2).

A property module (harness/props/cXX.py) exposes ``run(ctx)``.  ``ctx`` offers:
  ctx.prove()                 build coq/Props/Cxx.vo (+deps) and re-run coqc on Props/Cxx.v to collect
                              the theorems and their Print Assumptions
  ctx.impl(script, payload)   run harness/impl/<script>.py against /repo's working tree in a subprocess
  ctx.coq_mism(...)           evaluate the model on the same cases inside Coq (vm_compute), sharded
  ctx.fail(...) / ctx.broken(...) / ctx.finish(...)   decision + evidence
"""
from __future__ import annotations

import fcntl
import hashlib
import json
import os
import random
import re
import shutil
import subprocess
import sys
import time
from concurrent.futures import ThreadPoolExecutor
from pathlib import Path

VERIF = Path(__file__).resolve().parent.parent
COQ = VERIF / 'coq'
REPO = Path(os.environ.get('VERIF_REPO', '/repo'))
PY = '/venv/bin/python'
GUARD = 'SDC11073_VERIF'
COQ_WARN = ['-w', '-notation-overridden,-deprecated-hint-without-locality,'
            '-deprecated-instance-without-locality,-ambiguous-paths,-redundant-canonical-projection']


def sh(cmd, timeout=900, cwd=None, env=None, inp=None):
    t0 = time.time()
    try:
        p = subprocess.run(cmd, cwd=cwd, env=env, input=inp, capture_output=True, timeout=timeout,
                           text=isinstance(inp, str) or inp is None)
        return p.returncode, p.stdout, p.stderr, time.time() - t0
    except subprocess.TimeoutExpired as exc:
        out = exc.stdout or ''
        err = exc.stderr or ''
        if isinstance(out, bytes):
            out = out.decode('utf-8', 'replace')
        if isinstance(err, bytes):
            err = err.decode('utf-8', 'replace')
        return 124, out, err + '\nTIMEOUT', time.time() - t0


# ----------------------------------------------------------------------------- Coq literals
class Raw(str):
    """A string emitted verbatim into Coq source."""


def coqlit(x) -> str:
    """Render a Python value as a Coq term (Z for ints, list, tuple, bool, str -> string, None)."""
    if isinstance(x, Raw):
        return str(x)
    if isinstance(x, bool):
        return 'true' if x else 'false'
    if isinstance(x, int):
        return f'({x})%Z'
    if isinstance(x, str):
        return coq_string(x)
    if isinstance(x, bytes):
        return '[' + '; '.join(f'{b}%N' for b in x) + ']'
    if x is None:
        return 'None'
    if isinstance(x, list):
        return '[' + '; '.join(coqlit(e) for e in x) + ']'
    if isinstance(x, tuple):
        if len(x) == 0:
            return 'tt'
        return '(' + ', '.join(coqlit(e) for e in x) + ')'
    if isinstance(x, dict) and len(x) == 1:   # {'Some': v} / {'Ctor': [args]}
        (k, v), = x.items()
        if isinstance(v, list):
            return '(' + k + ''.join(' ' + coqlit(e) for e in v) + ')'
        return f'({k} {coqlit(v)})'
    raise TypeError(f'coqlit: {type(x)}')


def N(x: int) -> Raw:
    return Raw(f'{x}%N')


def NAT(x: int) -> Raw:
    return Raw(f'{x}%nat')


def coq_string(s: str) -> str:
    """Coq string literal for an ASCII-only str (other code points are not supported: use bytes)."""
    out = []
    for ch in s:
        o = ord(ch)
        if ch == '"':
            out.append('""')
        elif 32 <= o < 127:
            out.append(ch)
        else:
            raise ValueError('coq_string: non printable char; pass bytes instead')
    return '"' + ''.join(out) + '"%string'


# ----------------------------------------------------------------------------- known findings
def load_known():
    p = VERIF / 'known_findings.json'
    if not p.exists():
        return {'known': [], 'fixed': []}
    return json.loads(p.read_text())


def sig_matches(entry_sig: dict, sig: dict) -> bool:
    return all(sig.get(k) == v for k, v in entry_sig.items())


# ----------------------------------------------------------------------------- context
class Ctx:
    def __init__(self, pid: str, tier: str, seed: int):
        self.pid = pid
        self.tier = tier
        self.seed = seed
        self.rng = random.Random(seed * 1000003 + int(pid[1:]))
        self.t0 = time.time()
        self.theorems: list[str] = []
        self.assumptions: dict[str, list[str]] = {}
        self.discharged = 0
        self.proof_error: str | None = None
        self.violations: list[dict] = []
        self.known_hits: list[str] = []
        self.broken_items: list[dict] = []
        self.cov: dict = {'streams': {}}
        self.samples: list = []
        self.evaluations = 0
        self.distinct: set = set()
        self.traces_validated = 0
        self.assump: list[str] = []
        self.trusted: list[str] = []
        self.checker_cmds: list[str] = []
        self.known = load_known()
        self.thorough = tier == 'thorough'
        self.log_lines: list[str] = []

    # ------------------------------------------------------------------ util
    def log(self, *a):
        s = ' '.join(str(x) for x in a)
        self.log_lines.append(s)
        print(f'[{self.pid}] {s}', flush=True)

    def n(self, quick: int, thorough: int) -> int:
        return thorough if self.thorough else quick

    # ------------------------------------------------------------------ coq build
    def _ensure_makefile(self):
        files = sorted(str(p.relative_to(COQ)) for p in COQ.rglob('*.v') if '_cases' not in p.parts)
        stamp = COQ / '.filelist'
        want = '\n'.join(files)
        if not (COQ / 'Makefile').exists() or not stamp.exists() or stamp.read_text() != want:
            rc, out, err, _ = sh(['coq_makefile', '-f', '_CoqProject', '-o', 'Makefile'] + files, cwd=COQ)
            if rc != 0:
                raise RuntimeError('coq_makefile failed: ' + err)
            stamp.write_text(want)

    def coq_make(self, targets: list[str], timeout=1500):
        (COQ / '.lock').touch()
        with open(COQ / '.lock') as lk:
            fcntl.flock(lk, fcntl.LOCK_EX)
            self._ensure_makefile()
            cmd = ['make', '-j16'] + targets
            rc, out, err, dt = sh(cmd, cwd=COQ, timeout=timeout)
        self.checker_cmds.append(f'make -C coq -j16 {" ".join(targets)}')
        return rc == 0, out + err, dt

    def prove(self, props_file: str | None = None, extra_targets: list[str] | None = None) -> bool:
        """Build the property file's dependencies and check the property theorems.  Returns True iff
        every theorem of Props/Cxx.v was accepted by coqc (full .vo build)."""
        props_file = props_file or f'Props/{self.pid}.v'
        src = (COQ / props_file).read_text()
        self.theorems = re.findall(r'^\s*Theorem\s+(\w+)', src, re.M)
        for bad in ('Admitted', 'admit.', 'Axiom ', 'Parameter ', 'Conjecture ', 'Unset Guard', 'bypass_check'):
            if bad in src:
                self.proof_error = f'forbidden token {bad!r} in {props_file}'
                return False
        t0 = time.time()
        vo = props_file[:-2] + '.vo'
        ok, log, dt = self.coq_make([vo] + (extra_targets or []))
        if not ok:
            self.proof_error = self._first_error(log)
            self.discharged = 0
            self.log(f'PROOF BUILD FAILED ({dt:.0f}s): {self.proof_error[:600]}')
            return False
        # re-run coqc on the property file itself to capture Print Assumptions (cheap: exact + print)
        with open(COQ / '.lock') as lk:
            fcntl.flock(lk, fcntl.LOCK_EX)
            rc, out, err, dt2 = sh(['coqc', '-Q', '.', 'SDC'] + COQ_WARN + [props_file], cwd=COQ, timeout=900)
        self.checker_cmds.append(f'coqc -Q . SDC {props_file}')
        if rc != 0:
            self.proof_error = self._first_error(out + err)
            self.log('PROOF FAILED: ' + self.proof_error[:600])
            return False
        pa = parse_assumptions(out)
        names = re.findall(r'Print Assumptions\s+(\w+)', src)
        self.assumptions = {(names[i] if i < len(names) else k): v for i, (k, v) in enumerate(pa.items())}
        missing = [t for t in self.theorems if t not in self.assumptions]
        if missing:
            self.proof_error = f'no Print Assumptions output for {missing}'
            return False
        self.discharged = len(self.theorems)
        axioms = sorted({a for v in self.assumptions.values() for a in v})
        self.cov['axioms'] = axioms
        self.cov['theorems'] = self.theorems
        self.log(f'{len(self.theorems)} theorems of {props_file} checked in {time.time() - t0:.1f}s;'
                 f' axioms: {axioms or "none (closed under the global context)"}')
        return True

    @staticmethod
    def _first_error(log: str) -> str:
        m = re.search(r'(File "[^"]+", line \d+[^\n]*\n(?:.*\n){0,12})', log)
        return (m.group(1) if m else log[-1500:]).strip()

    def gate_grep(self, dirs: list[str]):
        """Thorough tier: no Admitted/Axiom/... anywhere in the listed coq dirs."""
        pat = re.compile(r'\b(Admitted|admit|Axiom|Parameter|Conjecture|bypass_check)\b|Unset Guard|type-in-type')
        hits = []
        for d in dirs:
            for p in (COQ / d).rglob('*.v'):
                txt = re.sub(r'\(\*.*?\*\)', '', p.read_text(), flags=re.S)
                for i, line in enumerate(txt.splitlines(), 1):
                    if pat.search(line):
                        hits.append(f'{p.relative_to(COQ)}:{i}: {line.strip()}')
        return hits

    def coqchk(self, vo_module: str):
        rc, out, err, dt = sh(['coqchk', '-silent', '-o', '-Q', '.', 'SDC', vo_module], cwd=COQ, timeout=1800)
        self.checker_cmds.append(f'coqchk -o -Q . SDC {vo_module}')
        self.cov['coqchk'] = {'rc': rc, 'wall_s': round(dt, 1), 'tail': (out + err)[-1500:]}
        return rc == 0

    # ------------------------------------------------------------------ extracted model (OCaml)
    def ocaml_driver(self, extract_v: str, ml_base: str, driver: str) -> tuple[str | None, str]:
        """Build coq/<extract_v> (which writes coq/Extract/<ml_base>.ml), then compile
        ocaml/zutil.inc + ocaml/<driver>.ml against it.  Returns (path of executable|None, log)."""
        ok, log, _ = self.coq_make([extract_v[:-2] + '.vo'])
        if not ok:
            return None, log
        bdir = VERIF / 'build' / driver
        bdir.mkdir(parents=True, exist_ok=True)
        exe = bdir / driver
        srcs = [COQ / 'Extract' / f'{ml_base}.ml', COQ / 'Extract' / f'{ml_base}.mli',
                VERIF / 'ocaml' / 'zutil.inc', VERIF / 'ocaml' / f'{driver}.ml']
        if exe.exists() and all(exe.stat().st_mtime > x.stat().st_mtime for x in srcs):
            return str(exe), 'up to date'
        for x in srcs[:2]:
            shutil.copy(x, bdir / x.name)
        mod = ml_base[0].upper() + ml_base[1:]
        (bdir / 'main.ml').write_text(f'open {mod}\n' + srcs[2].read_text() + srcs[3].read_text())
        rc, out, err, _ = sh(['ocamlfind', 'ocamlopt', '-w', '-a', '-O2' if False else '-inline', '50',
                              f'{ml_base}.mli', f'{ml_base}.ml', 'main.ml', '-o', driver], cwd=bdir, timeout=600)
        if rc != 0:
            return None, out + err
        return str(exe), out + err

    # ------------------------------------------------------------------ generated files
    def regenerate(self, script: str, rel: str | None = None, payload=None) -> bool:
        """Run a translator (harness/impl/<script>.py, prints {"text": ...}) against /repo and write
        coq/<rel>.  A translator that cannot translate (fail-closed) marks the run as broken."""
        r = self.impl(script, payload or {})
        if r.get('_crash') or 'text' not in r:
            self.broken('translator', script, r.get('stderr', r))
            return False
        rel = rel or r['rel']
        if self.write_generated(rel, r['text']):
            self.log(f'regenerated {rel} (content changed)')
        self.cov.setdefault('generated', []).append(rel)
        return True

    def write_generated(self, rel: str, text: str) -> bool:
        """Write a regenerated .v file only when its content changed (keeps make incremental)."""
        p = COQ / rel
        p.parent.mkdir(parents=True, exist_ok=True)
        if p.exists() and p.read_text() == text:
            return False
        with open(COQ / '.lock', 'a+') as lk:
            fcntl.flock(lk, fcntl.LOCK_EX)
            p.write_text(text)
        return True

    # ------------------------------------------------------------------ implementation side
    def impl(self, script: str, payload, timeout=600, env_extra=None):
        """Run harness/impl/<script>.py with PYTHONPATH pointing at /repo's working tree.
        stdin: JSON payload; stdout: last line = JSON result."""
        env = dict(os.environ)
        env['PYTHONPATH'] = f'{REPO}/src:{REPO}:{VERIF}/harness'
        env['PYTHONHASHSEED'] = '0'
        env['PYTHONDONTWRITEBYTECODE'] = '1'
        env[GUARD] = '1'
        if env_extra:
            env.update(env_extra)
        rc, out, err, dt = sh([PY, '-B', str(VERIF / 'harness' / 'impl' / f'{script}.py')],
                              inp=json.dumps(payload), timeout=timeout, env=env, cwd='/')
        if rc != 0:
            return {'_crash': True, 'rc': rc, 'stderr': err[-3000:], 'stdout': out[-1000:]}
        try:
            return json.loads(out.strip().splitlines()[-1])
        except Exception as exc:  # noqa: BLE001
            return {'_crash': True, 'rc': rc, 'stderr': f'unparsable output: {exc}\n{out[-1000:]}\n{err[-2000:]}'}

    # ------------------------------------------------------------------ model side (Coq evaluation)
    def coq_mism(self, stream: str, header: str, eqb: str, run: str, cases: list[tuple[str, str]],
                 shard=400, timeout=900, deps=()):
        """cases: list of (input_literal, expected_literal).  Returns (mismatch_indices, error|None).
        Each shard is a file  `Definition cs := [...]. Eval vm_compute in mism eqb run cs.`"""
        ok, log, _ = self.coq_make(['Common/Corr.vo'] + list(deps))
        if not ok:
            return [], 'model does not build: ' + self._first_error(log)
        d = COQ / '_cases' / f'{self.pid}_{stream}'
        if d.exists():
            shutil.rmtree(d)
        d.mkdir(parents=True)
        shards = [cases[i:i + shard] for i in range(0, len(cases), shard)]
        files = []
        for k, sh_cases in enumerate(shards):
            f = d / f's{k}.v'
            body = ';\n'.join(f'({a}, {b})' for a, b in sh_cases)
            f.write_text(f'{header}\nFrom SDC Require Import Common.Corr.\n'
                         f'Definition cs := [\n{body}\n].\n'
                         f'Eval vm_compute in (mism ({eqb}) ({run}) cs).\n')
            files.append(f)

        def one(f):
            return sh(['coqc', '-Q', str(COQ), 'SDC'] + COQ_WARN + [str(f)], cwd=d, timeout=timeout)

        mism: list[int] = []
        with ThreadPoolExecutor(max_workers=8) as ex:
            results = list(ex.map(one, files))
        for k, (rc, out, err, dt) in enumerate(results):
            if rc != 0:
                return mism, f'coqc failed on shard {k}: {(out + err)[-1500:]}'
            m = re.search(r'=\s*(\[.*?\])\s*:\s*list N', out, re.S)
            if not m:
                return mism, f'unparsable coq output on shard {k}: {out[-500:]}'
            for tok in re.findall(r'\d+', m.group(1)):
                mism.append(k * shard + int(tok))
        shutil.rmtree(d, ignore_errors=True)
        return mism, None

    def coq_eval(self, header: str, expr: str, timeout=300) -> str:
        """Evaluate one expression with vm_compute, return Coq's printed answer (diagnostics)."""
        d = COQ / '_cases' / f'{self.pid}_eval_{os.getpid()}'
        d.mkdir(parents=True, exist_ok=True)
        f = d / 'e.v'
        f.write_text(f'{header}\nEval vm_compute in ({expr}).\n')
        rc, out, err, dt = sh(['coqc', '-Q', str(COQ), 'SDC'] + COQ_WARN + [str(f)], cwd=d, timeout=timeout)
        shutil.rmtree(d, ignore_errors=True)
        return (out + err).strip()

    # ------------------------------------------------------------------ accounting
    def count(self, stream: str, n_eval: int, keys, validated: int | None = None, **extra):
        """Record that a stream ran n_eval cases; keys = iterable of hashable canonical non-trivial cases."""
        ks = {hashlib.sha1(repr(k).encode()).hexdigest()[:16] for k in keys}
        n_eval = max(n_eval, len(ks))        # a module may pass sub-case keys: every distinct key was evaluated
        self.evaluations += n_eval
        self.distinct |= {stream + ':' + k for k in ks}
        self.traces_validated += n_eval if validated is None else validated
        st = self.cov['streams'].setdefault(stream, {'evaluations': 0, 'distinct_nontrivial': 0})
        st['evaluations'] += n_eval
        st['distinct_nontrivial'] += len(ks)
        st.update(extra)

    def sample(self, x):
        if len(self.samples) < 12:
            self.samples.append(x)

    # ------------------------------------------------------------------ verdicts
    def fail(self, what: str, signature: dict, replay: dict):
        """A concrete failing input of the property on the implementation (oracle verdict)."""
        for e in self.known['known']:
            if e['property'] == self.pid and sig_matches(e['signature'], signature):
                msg = f'KNOWN-FINDING: property={self.pid} {e["what"]}'
                if msg not in self.known_hits:
                    self.known_hits.append(msg)
                    print(msg, flush=True)
                return False
        # one report per distinct signature; keep the smallest replay
        size = len(json.dumps(replay, default=str))
        for v in self.violations:
            if v['signature'] == signature:
                v['count'] = v.get('count', 1) + 1
                if size < v['size']:
                    v.update({'what': what, 'replay': replay, 'size': size})
                return True
        self.violations.append({'what': what, 'signature': signature, 'replay': replay, 'found': True,
                                'size': size, 'count': 1})
        return True

    def broken(self, kind: str, name: str, detail):
        """A theorem / correspondence stream / translator that no longer checks."""
        self.broken_items.append({'kind': kind, 'name': name, 'detail': detail})
        self.log(f'BROKEN {kind} {name}: {str(detail)[:800]}')

    def finish(self, rule: str, assumptions: list[str], trusted_base: list[str], not_modelled: list[str] | None = None):
        wall = time.time() - self.t0
        rc = 0
        (VERIF / 'replays').mkdir(exist_ok=True)
        # broken proof/correspondence with no concrete failing input -> still a violation
        if self.broken_items and not self.violations:
            self.violations.append({'what': 'proof or correspondence no longer checks; search found no failing input',
                                    'signature': {}, 'found': False,
                                    'replay': {'broken': self.broken_items}})
        for i, v in enumerate(self.violations):
            path = VERIF / 'replays' / f'{self.pid}-{self.seed}-{i}.json'
            rep = {'property': self.pid, 'tier': self.tier, 'seed': self.seed, 'what': v['what'], 'failing_cases_with_this_signature': v.get('count', 1),
                   'signature': v['signature'], 'broken': self.broken_items,
                   'how_to_replay': f'./check {self.pid} --replay {path}'}
            rep.update(v['replay'])
            path.write_text(json.dumps(rep, indent=1, default=str))
            tail = '' if v['found'] else ' no-failing-input-found'
            print(f'VIOLATION property={self.pid} replay={path}{tail}', flush=True)
            print(f'  -> {v["what"][:400]}', flush=True)
            rc = 1
        axioms = self.cov.get('axioms', [])
        tb = ['Coq 8.16.1 kernel (coqc, full .vo build; vm_compute used, native_compute not used)',
              'axioms reported by Print Assumptions: ' + (', '.join(axioms) if axioms else 'none')] + trusted_base
        cov = {
            'obligations': max(len(self.theorems), 1),
            'discharged': self.discharged,
            'checker_cmd': ' && '.join(dict.fromkeys(self.checker_cmds)) or 'make -C coq',
            'trusted_base': tb,
            'evaluations': self.evaluations,
            'distinct_nontrivial': len(self.distinct),
            'rule': rule,
            'samples': self.samples or ['(no sample recorded)'],
            'traces_validated_against_impl': self.traces_validated,
            'theorems': self.theorems,
            'assumptions_per_theorem': self.assumptions,
            'streams': self.cov['streams'],
            'known_findings_reported': self.known_hits,
            'broken': self.broken_items,
            'proof_error': self.proof_error,
            'not_modelled': not_modelled or [],
        }
        if self.discharged == 0:
            # the proof-level keys demand discharged >= 1; with a broken proof the run is reported through the
            # exploration-style counts instead (the VIOLATION line says the rest)
            cov['discharged_theorems'] = cov.pop('discharged')
            cov['obligations_stated'] = cov.pop('obligations')
            cov['evaluations'] = max(cov['evaluations'], 1)
        for k, v in self.cov.items():
            cov.setdefault(k, v)
        ev = {'property_id': self.pid, 'tier': self.tier, 'seed': self.seed, 'level': 'proof',
              'coverage': cov, 'assumptions': assumptions, 'wall_s': round(wall, 2),
              'violations': sum(1 for _ in self.violations)}
        (VERIF / 'evidence').mkdir(exist_ok=True)
        (VERIF / 'evidence' / f'{self.pid}.json').write_text(json.dumps(ev, indent=1, default=str))
        self.log(f'done in {wall:.1f}s: evaluations={self.evaluations} distinct={len(self.distinct)} '
                 f'theorems={self.discharged}/{len(self.theorems)} violations={len(self.violations)} '
                 f'known={len(self.known_hits)}')
        return rc


def parse_assumptions(out: str) -> dict[str, list[str]]:
    """Split coqc output of a Props file into per-theorem axiom lists.  The Props files print
    `(*PA thm *)` markers via `Print Assumptions thm.` in order, so we pair them positionally with
    the `Print Assumptions` commands found in the output."""
    res: dict[str, list[str]] = {}
    blocks = re.split(r'\n(?=Closed under the global context|Axioms:)', '\n' + out)
    idx = 0
    for b in blocks:
        b = b.strip()
        if b.startswith('Closed under the global context'):
            res[f'#{idx}'] = []
            idx += 1
        elif b.startswith('Axioms:'):
            names = re.findall(r'^([A-Za-z_][\w.\']*)\s*:', b[len('Axioms:'):], re.M)
            res[f'#{idx}'] = names
            idx += 1
    return res
