(* stdin: one case per line; strings hex-encoded ("-" = empty, "~" = None); stdout: one result line per case.
   M fixed mb a b nbad bad*                       -> 0 | 1 | 2 (raise)
   S fixed allow cap nbad bad* nev ev*            -> per event (allow = module option allow_missing_app_sequence)
                                                     per event: outs / query result, then the final tables
   ev  : pub epr types scopes xaddrs iid | clear epr | in mid msg | loop k | found typesopt sfopt
   F fixed nbad bad* nsvc svc* typesopt sfopt     -> per service "<scope_in_list digits>:<matches_filter>", then "| <eprs kept by filter_services>" or "| E"
   msg : hello aps svc | bye epr aps (mdv|~) types scopesopt xaddrs | probe typesopt sfopt | pm aps n svc* | resolve epr | rm aps (svc|~) | other
   svc : epr types scopesopt xaddrs mdv        types: n (ns local)*     scopesopt: ~ | n text*
   sfopt: ~ | sf mb n text*                        xaddrs: n x*             aps: ~ | int *)
let rec n_of_int n = if n = 0 then N0 else Npos (pos_of_int n)
let int_of_n = function N0 -> 0 | Npos p -> int_of_pos p
let unhex s =
  if s = "-" then [] else
  let l = String.length s / 2 in
  List.init l (fun i -> n_of_int (int_of_string ("0x" ^ String.sub s (2 * i) 2)))
let hex bs = if bs = [] then "-" else String.concat "" (List.map (fun b -> Printf.sprintf "%02x" (int_of_n b)) bs)
let k = match_consts

let svc_str s =
  String.concat " "
    ([hex s.s_epr; string_of_int (List.length s.s_types)] @
     List.concat_map (fun (a, b) -> [hex a; hex b]) s.s_types @
     (match s.s_scopes with None -> ["~"] | Some l -> string_of_int (List.length l) :: List.map hex l) @
     (string_of_int (List.length s.s_xaddrs) :: List.map hex s.s_xaddrs) @
     [string_of_int (int_of_z s.s_mdv); string_of_int (int_of_z s.s_iid)])
let out_str = function
  | OHello s -> "H " ^ svc_str s
  | OBye s -> "B " ^ hex s.s_epr
  | OProbeMatch s -> "PM " ^ svc_str s
  | OResolveMatch s -> "RM " ^ svc_str s
  | OResolve e -> "R " ^ hex e

let () =
  let buf = Buffer.create (1 lsl 20) in
  (try
    while true do
      let line = input_line stdin in
      let toks = ref (String.split_on_char ' ' line) in
      let next () = match !toks with t :: r -> toks := r; t | [] -> failwith ("short line: " ^ line) in
      let next_int () = int_of_string (next ()) in
      let rec times n f = if n <= 0 then [] else let x = f () in x :: times (n - 1) f in
      let strs () = let n = next_int () in times n (fun () -> unhex (next ())) in
      let types () = let n = next_int () in times n (fun () -> let a = unhex (next ()) in let b = unhex (next ()) in (a, b)) in
      let peek_none () = match !toks with "~" :: r -> toks := r; true | _ -> false in
      let types_opt () = if peek_none () then None else Some (types ()) in
      let scopes_opt () = if peek_none () then None else Some (strs ()) in
      let sf_opt () = if peek_none () then None else
          (ignore (next ()); let mb = (match next () with "~" -> None | t -> Some (unhex t)) in Some (mb, strs ())) in
      let aps () = if peek_none () then None else Some (z_of_int (next_int ())) in
      let svc () =
        let epr = unhex (next ()) in let ty = types () in let sc = scopes_opt () in let xa = strs () in
        let mdv = z_of_int (next_int ()) in
        { s_epr = epr; s_types = ty; s_scopes = sc; s_xaddrs = xa; s_mdv = mdv; s_iid = Z0 } in
      let msg () = match next () with
        | "hello" -> let a = aps () in MHello (a, svc ())
        | "bye" ->
          let epr = unhex (next ()) in let a = aps () in
          let mdv = if peek_none () then None else Some (z_of_int (next_int ())) in
          let ty = types () in let sc = scopes_opt () in let xa = strs () in
          MBye (epr, { bx_appseq = a; bx_mdv = mdv; bx_types = ty; bx_scopes = sc; bx_xaddrs = xa })
        | "probe" -> let t = types_opt () in MProbe (t, sf_opt ())
        | "pm" -> let a = aps () in let n = next_int () in MProbeMatches (a, times n svc)
        | "resolve" -> MResolve (unhex (next ()))
        | "rm" -> let a = aps () in MResolveMatches (a, if peek_none () then None else Some (svc ()))
        | "other" -> MOther
        | t -> failwith ("bad msg " ^ t) in
      (match next () with
       | "M" ->
         let fixed = next () = "1" in
         let mb = (match next () with "~" -> None | t -> Some (unhex t)) in
         let a = unhex (next ()) in let b = unhex (next ()) in
         let badl = strs () in
         Buffer.add_string buf (string_of_int (int_of_n (run_match k fixed badl mb a b)))
       | "F" ->
         let fixed = next () = "1" in
         let badl = strs () in
         let nsvc = next_int () in
         let svs = times nsvc svc in
         let t = types_opt () in let sf = sf_opt () in
         let (per, kept) = run_filter k fixed badl svs t sf in
         let d n = string_of_int (int_of_n n) in
         Buffer.add_string buf (String.concat " " (List.map (fun (l, m) -> String.concat "" (List.map d l) ^ ":" ^ d m) per));
         Buffer.add_string buf (match kept with None -> " | E" | Some l -> " |" ^ String.concat "" (List.map (fun e -> " " ^ hex e) l))
       | "S" ->
         let fixed = next () = "1" in
         let allow = next () = "1" in
         let cap = nat_of_int (next_int ()) in
         let badl = strs () in
         let split = split_tbl badl in
         let nev = next_int () in
         let node = ref node0 in
         for _ = 1 to nev do
           (match next () with
            | "found" ->
              let t = types_opt () in let sf = sf_opt () in
              (match filter_services k fixed split (t_values !node.disc.remote) t sf with
               | Raise -> Buffer.add_string buf "FE"
               | Ret l -> Buffer.add_string buf ("F" ^ String.concat "" (List.map (fun s -> " " ^ hex s.s_epr) l)))
            | kind ->
              let ev = (match kind with
                  | "pub" -> let epr = unhex (next ()) in let ty = types () in let sc = scopes_opt () in let xa = strs () in
                    EPublish (epr, ty, sc, xa, z_of_int (next_int ()))
                  | "clear" -> EClear (unhex (next ()))
                  | "in" -> let mid = z_of_int (next_int ()) in EIn (mid, msg ())
                  | "loop" -> ELoop (nat_of_int (next_int ()))
                  | t -> failwith ("bad event " ^ t)) in
              let (n1, os) = step k fixed split allow cap !node ev in
              node := n1;
              Buffer.add_string buf (String.concat " , " (List.map out_str os)));
           Buffer.add_string buf " ; "
         done;
         let tbl t = String.concat " , " (List.map (fun (key, s) -> hex key ^ " = " ^ svc_str s) t) in
         Buffer.add_string buf ("REMOTE " ^ tbl !node.disc.remote ^ " ; LOCAL " ^ tbl !node.disc.local ^ " ; KNOWN" ^
                                String.concat "" (List.map (fun z -> " " ^ string_of_int (int_of_z z)) !node.kn_ids))
       | t -> failwith ("bad line kind " ^ t));
      Buffer.add_char buf '\n'
    done
  with End_of_file -> ());
  print_string (Buffer.contents buf)
