(* stdin, one request per line; numbers that may exceed 62 bits travel as binary strings
     N <bin n>            -> "<bin a> <S> <bin back>"    to_py n = a / 2^S, back = to_xml (to_py n)
     W <lo> <count>       -> the same line for every n of the window
     F <bin m> <e>        -> "<bin N> <bin a> <S>"       x = m * 2^e, N = to_xml x, to_py N = a / 2^S
     X <bin num> <bin den>-> "<bin N>"                        N = round(num/den * 1000), exact argument *)
let rec pos_of_bits s i acc =
  if i >= String.length s then acc
  else pos_of_bits s (i + 1) (if s.[i] = '1' then XI acc else XO acc)
let z_of_bin s =
  let n = String.length s in
  let rec first i = if i < n && s.[i] = '0' then first (i + 1) else i in
  let i = first 0 in
  if i >= n then Z0 else Zpos (pos_of_bits s (i + 1) XH)
let rec bin_of_pos p = match p with XH -> "1" | XO q -> bin_of_pos q ^ "0" | XI q -> bin_of_pos q ^ "1"
let bin_of_z z = match z with Z0 -> "0" | Zpos p -> bin_of_pos p | Zneg p -> "-" ^ bin_of_pos p
let rec log2_pow2 p = match p with XH -> 0 | XO q -> 1 + log2_pow2 q | XI _ -> -1000000
let frac (a, b) = (bin_of_z a, (match b with Zpos p -> log2_pow2 p | _ -> -1000000))
let line_n buf n =
  let x = ts_to_py n in
  let (a, s) = frac x in
  Buffer.add_string buf (Printf.sprintf "%s %d %s\n" a s (bin_of_z (ts_to_xml x)))
let () =
  let buf = Buffer.create (1 lsl 20) in
  (try
    while true do
      let l = input_line stdin in
      match String.split_on_char ' ' l with
      | ["N"; b] -> line_n buf (z_of_bin b)
      | ["W"; lo; cnt] ->
          let lo = int_of_string lo and cnt = int_of_string cnt in
          for n = lo to lo + cnt - 1 do line_n buf (z_of_int n) done
      | ["F"; m; e] ->
          let x = fr_of_me (z_of_bin m) (z_of_int (int_of_string e)) in
          let nn = ts_to_xml x in
          let (a2, s2) = frac (ts_to_py nn) in
          Buffer.add_string buf (Printf.sprintf "%s %s %d\n" (bin_of_z nn) a2 s2)
      | ["X"; a; b] ->
          Buffer.add_string buf (bin_of_z (ts_to_xml_exact (z_of_bin a, z_of_bin b)) ^ "\n")
      | _ -> ()
    done
  with End_of_file -> ());
  print_string (Buffer.contents buf)
