(* stdin: one case per line (strings hex-encoded, "-" = empty string, "~" = None); stdout: one result line per case.
   R root v1..v6                          -> scope parse
   X bad scope                            -> parse
   P root v1..v6 ovr_root ovr_ext np (root v1..v6)*np nbad bad*   -> N | Y ns scope* verdict-rows
   F root v1..v6 nsv (~ | n scope*n)*nsv nbad bad*                -> E | K service*   (service = ~ or n,scope,..) *)
let rec n_of_int n = if n = 0 then N0 else Npos (pos_of_int n)
let int_of_n = function N0 -> 0 | Npos p -> int_of_pos p
let unhex s =
  if s = "-" then [] else
  let l = String.length s / 2 in
  List.init l (fun i -> n_of_int (int_of_string ("0x" ^ String.sub s (2 * i) 2)))
let hex bs = if bs = [] then "-" else String.concat "" (List.map (fun b -> Printf.sprintf "%02x" (int_of_n b)) bs)
let opt s = if s = "~" then None else Some (unhex s)
let hexopt = function None -> "~" | Some b -> hex b
let nel = 6
let k = loc_consts
let parse_str (p, code) =
  match p with
  | Some l -> "O " ^ hex l.l_root ^ " " ^ String.concat " " (List.map hexopt l.l_vals)
  | None -> if int_of_n code = 0 then "S" else "V"
let () =
  let buf = Buffer.create (1 lsl 20) in
  (try
    while true do
      let line = input_line stdin in
      let toks = ref (String.split_on_char ' ' line) in
      let next () = match !toks with t :: r -> toks := r; t | [] -> failwith ("short line: " ^ line) in
      let next_int () = int_of_string (next ()) in
      let rec times n f = if n <= 0 then [] else let x = f () in x :: times (n - 1) f in
      let read_loc () = let root = unhex (next ()) in let vals = times nel (fun () -> opt (next ())) in
        { l_root = root; l_vals = vals } in
      let kind = next () in
      (match kind with
       | "R" ->
         let l = read_loc () in
         let (s, p) = run_roundtrip k l in
         Buffer.add_string buf (hex s ^ " " ^ parse_str p)
       | "X" ->
         let bad = next () = "1" in
         let s = unhex (next ()) in
         Buffer.add_string buf (parse_str (run_parse k (if bad then [s] else []) s))
       | "P" ->
         let l = read_loc () in
         let ovr () = match next () with "k" -> None | t -> Some (opt t) in
         let orr = ovr () in let oe = ovr () in
         let np = next_int () in
         let probes = times np read_loc in
         let nb = next_int () in
         let badl = times nb (fun () -> unhex (next ())) in
         (match run_published k true badl l orr oe probes with
          | None -> Buffer.add_string buf "N"
          | Some (pubs, rows) ->
            Buffer.add_string buf (Printf.sprintf "Y %d" (List.length pubs));
            List.iter (fun s -> Buffer.add_string buf (" " ^ hex s)) pubs;
            List.iter (fun row -> Buffer.add_string buf " |";
                        List.iter (fun v -> Buffer.add_string buf (match v with None -> " E" | Some true -> " T" | Some false -> " F")) row) rows)
       | "F" ->
         let me = read_loc () in
         let nsv = next_int () in
         let svs = times nsv (fun () -> match next () with "~" -> None | t -> Some (times (int_of_string t) (fun () -> unhex (next ())))) in
         let nb = next_int () in
         let badl = times nb (fun () -> unhex (next ())) in
         (match run_foreign k true badl me svs with
          | None -> Buffer.add_string buf "E"
          | Some kept ->
            Buffer.add_string buf "K";
            List.iter (fun sv -> Buffer.add_string buf (" " ^ (match sv with None -> "~" | Some sc ->
                String.concat "," (string_of_int (List.length sc) :: List.map hex sc)))) kept)
       | _ -> failwith ("bad line: " ^ line));
      Buffer.add_char buf '\n'
    done
  with End_of_file -> ());
  print_string (Buffer.contents buf)
