(* grid mode: argv = init repeat min max upper
     -> one line per (d0, g) of the full grid: "d0 g | t1:i1 t2:i2 ..." (us) followed by ok / BAD
   node mode: argv = node; stdin, one request per line
     "K <kind> <d0> <g>"            -> queue entries "t1:i1 t2:i2 ..." of a message of that kind (kind_schedule_us) + ok / BAD
     "D <cap> <ev> <ev> ..."        -> "<memory, newest first> | <one 0/1 per event: handed to the handler>"   (drun)
        ev:  o<id> EvOut, i<id> EvIn, p<n> EvOp (n-th constructor of api_op), r EvRestart *)
let kind_of = function
  | "Hello" -> KHello | "Bye" -> KBye | "Probe" -> KProbe | "Resolve" -> KResolve
  | "ProbeMatches" -> KProbeMatches | "ResolveMatches" -> KResolveMatches
  | s -> failwith ("unknown kind " ^ s)
let op_of = function
  | 0 -> OpPublish | 1 -> OpClearService | 2 -> OpClearLocal | 3 -> OpClearRemote | 4 -> OpSearch | 5 -> OpFound
  | 6 -> OpStop | n -> failwith ("unknown operation " ^ string_of_int n)
let ev_of s =
  let rest () = int_of_string (String.sub s 1 (String.length s - 1)) in
  match s.[0] with
  | 'o' -> EvOut (z_of_int (rest ()))
  | 'i' -> EvIn (z_of_int (rest ()))
  | 'p' -> EvOp (op_of (rest ()))
  | 'r' -> EvRestart
  | _ -> failwith ("unknown event " ^ s)

let node () =
  let buf = Buffer.create (1 lsl 16) in
  (try
     while true do
       let line = input_line stdin in
       match List.filter (fun x -> x <> "") (String.split_on_char ' ' line) with
       | "K" :: k :: d0 :: g :: [] ->
           let kd = kind_of k in
           let s = kind_schedule_us kd (z_of_int (int_of_string d0)) (z_of_int (int_of_string g)) in
           List.iter (fun (t, i) -> Buffer.add_string buf (Printf.sprintf "%d:%d " (int_of_z t) (int_of_z i))) s;
           Buffer.add_string buf (if kind_count_ok kd then "ok\n" else "BAD\n")
       | "D" :: cap :: evs ->
           let (mem, acted) = drun (nat_of_int (int_of_string cap)) [] (List.map ev_of evs) in
           List.iter (fun z -> Buffer.add_string buf (Printf.sprintf "%d " (int_of_z z))) mem;
           Buffer.add_string buf "|";
           List.iter (fun b -> Buffer.add_string buf (if b then " 1" else " 0")) acted;
           Buffer.add_char buf '\n'
       | [] -> Buffer.add_char buf '\n'
       | _ -> failwith ("bad request " ^ line)
     done
   with End_of_file -> ());
  print_string (Buffer.contents buf)

let grid () =
  let a i = int_of_string Sys.argv.(i) in
  let p = { init_ms = z_of_int (a 1); repeat = nat_of_int (a 2); min_ms = z_of_int (a 3);
            max_ms = z_of_int (a 4); upper_ms = z_of_int (a 5) } in
  let buf = Buffer.create (1 lsl 20) in
  for d0 = 0 to a 1 do
    for g = a 3 to a 4 - 1 do
      let s = schedule_us p (z_of_int d0) (z_of_int g) in
      Buffer.add_string buf (Printf.sprintf "%d %d |" d0 g);
      List.iter (fun (t, i) -> Buffer.add_string buf (Printf.sprintf " %d:%d" (int_of_z t) (int_of_z i))) s;
      Buffer.add_string buf (if check_envelope p (z_of_int d0) (z_of_int g) then " ok\n" else " BAD\n")
    done
  done;
  print_string (Buffer.contents buf)

let () = if Array.length Sys.argv > 1 && Sys.argv.(1) = "node" then node () else grid ()
