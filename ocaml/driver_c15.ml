(* argv: init repeat min max upper  -> one line per (d0, g) of the full grid: "d0 g | t1:i1 t2:i2 ..." (us) *)
let () =
  let a i = int_of_string Sys.argv.(i) in
  let p = { init_ms = z_of_int (a 1); repeat = nat_of_int (a 2); min_ms = z_of_int (a 3);
            max_ms = z_of_int (a 4); upper_ms = z_of_int (a 5) } in
  let buf = Buffer.create (1 lsl 20) in
  for d0 = 0 to a 1 do
    for g = a 3 to a 4 - 1 do
      let s = schedule_us p (z_of_int d0) (z_of_int g) in
      Buffer.add_string buf (Printf.sprintf "%d %d |" d0 g);
      List.iter (fun (t, i) -> Buffer.add_string buf (Printf.sprintf " %d:%d" (int_of_z t) (int_of_z i))) s;
      Buffer.add_string buf (if check_envelope p (z_of_int d0) (z_of_int g) then " ok\n" else " BAD\n")
    done
  done;
  print_string (Buffer.contents buf)
