#!/bin/bash
# Build the whole Coq development (full .vo build) from files on disk; offline.
set -e
cd "$(dirname "$0")"
export PYTHONDONTWRITEBYTECODE=1 PYTHONHASHSEED=0
exec /venv/bin/python -B harness/setup.py "$@"
