#!/bin/bash
# tools/regress_all.sh <outdir> <seed dirs...> : evaluate many seeded changes in 5 parallel lanes; properties that share
# generated Coq files stay in one lane (sequential inside a lane)
out="$1"; shift
mkdir -p "$out"; rm -f "$out"/lane*.txt
lane() { case "$1" in C01|C02|C03|C06|C10|C11) echo 1;; C04|C07|C20) echo 2;; C05|C12|C18) echo 3;; C08|C09|C19) echo 4;; *) echo 5;; esac; }
for d in "$@"; do b=$(basename "$d"); echo "$d" >> "$out/list$(lane ${b:0:3}).txt"; done
for l in 1 2 3 4 5; do
  [ -f "$out/list$l.txt" ] && ( /verif/tools/try_seeds.sh "$out/lane$l.txt" $(cat "$out/list$l.txt") ) &
done
wait
cat "$out"/lane*.txt > "$out/all.txt"; rm -f "$out"/list*.txt
echo "REGRESSION DONE" >> "$out/all.txt"
