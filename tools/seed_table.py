#!/usr/bin/env python3
"""tools/seed_table.py : rewrite section 8 of DESIGN.md (between the SEEDED-TABLE markers) from seeded/*/meta.json"""
import json
import re
from pathlib import Path

V = Path('/verif')
rows = []
for d in sorted((V / 'seeded').iterdir()):
    m = json.loads((d / 'meta.json').read_text())
    files = sorted(set(re.findall(r'^\+\+\+ b/(\S+)', (d / 'patch.diff').read_text(errors='replace'), re.M)))
    res = m['check_result']
    lines = [l for l in res.get('violation_lines', []) if l.startswith('VIOLATION')]
    if not lines:
        verdict = '**missed**'
    elif all('no-failing-input-found' in l for l in lines):
        verdict = 'reported, no-failing-input-found (' + '; '.join(b.split('BROKEN ')[1][:60] for b in res.get('broken', [])[:1]) + ')'
    else:
        why = next((l[3:].strip() for l in res.get('violation_lines', []) if l.startswith('->')), '')
        verdict = 'concrete replay: ' + why[:150].replace('|', '/')
    rows.append(f"| `{d.name}` | {', '.join(f.split('/')[-1] for f in files)} | {m['needs_to_manifest'][:260].replace('|', '/')} | "
                f"`./check {m['property']}`: {verdict} | {m.get('strengthening', '-')} |")
table = ('| seeded change | file | needs, to manifest | what the check reports on the changed tree | strengthening it caused |\n'
         '|---|---|---|---|---|\n' + '\n'.join(rows))
p = V / 'DESIGN.md'
s = p.read_text()
s = re.sub(r'(<!-- SEEDED-TABLE -->\n).*?(<!-- /SEEDED-TABLE -->)', lambda mo: mo.group(1) + table + '\n' + mo.group(2), s, flags=re.S)
p.write_text(s)
print(len(rows), 'rows')
