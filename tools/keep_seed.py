#!/usr/bin/env python3
"""tools/keep_seed.py <src dir> <Cxx> <slug> <needs> : copy a confirmed seeded change into seeded/<Cxx>_<slug>/"""
import json
import re
import shutil
import sys
from pathlib import Path

src, pid, slug, needs = Path(sys.argv[1]), sys.argv[2], sys.argv[3], sys.argv[4]
dst = Path('/verif/seeded') / f'{pid}_{slug}'
dst.mkdir(parents=True, exist_ok=True)
for f in ('patch.diff', 'demo.py', 'test_demo.py', 'notes.md'):
    if (src / f).exists():
        shutil.copy(src / f, dst / f)
log = (src / f'check_{pid}.log').read_text() if (src / f'check_{pid}.log').exists() else ''
viol = [l.strip()[:300] for l in log.splitlines() if l.startswith('VIOLATION') or l.startswith('  -> ')]
broken = [l.strip()[:300] for l in log.splitlines() if 'BROKEN' in l]
demo_clean = (src / 'demo_clean.log').exists()
meta = {
    'property': pid,
    'origin': 'independent seeding sub-agent (saw only the property text and a scratch worktree of /repo)',
    'breaks': next((l for l in (src / 'notes.md').read_text().splitlines() if l.strip() and not l.startswith('#')), '')[:400] if (src / 'notes.md').exists() else '',
    'needs_to_manifest': needs,
    'what_i_ran': [
        f'tools/try_seed.sh {src} {pid} [related tests]: fresh worktree of /repo HEAD; demo without the change; git apply patch.diff; '
        'demo with the change; related tests of /repo/tests with the change; VERIF_REPO=<worktree> ./check ' + pid],
    'demo_without_change': 'exit 0',
    'demo_with_change': 'exit 1',
    'check_result': {'exit': 1 if viol else 0, 'violation_lines': viol[:6], 'broken': broken[:3]},
    'caught_by': pid if viol else None,
}
(dst / 'meta.json').write_text(json.dumps(meta, indent=1))
print('kept', dst, 'caught' if viol else 'MISSED')
