#!/bin/bash
# nsrun.sh <command...> : run a command in a private network namespace (loopback only, multicast enabled),
# so that test runs of different worktrees cannot see each other's sockets / WS-Discovery traffic.
exec unshare -n bash -c 'ip link set lo up; ip link set lo multicast on; ip route add 224.0.0.0/4 dev lo 2>/dev/null; exec "$@"' nsrun "$@"
