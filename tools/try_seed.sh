#!/bin/bash
# tools/try_seed.sh <seed dir with patch.diff + demo> <Cxx> [related test files...]
# 1. fresh worktree of /repo HEAD, 2. demo without change (must pass), 3. apply, demo with change (must fail),
# 4. related tests with change (must pass), 5. ./check Cxx against the changed worktree (should report a VIOLATION)
d="$1"; pid="$2"; shift 2
mkdir -p /tmp/seedc; wt=/tmp/seedc/confirm_$pid
LOCK="/verif/tools/nsrun.sh"   # tests run in a private network namespace
git -C /repo worktree remove --force "$wt" 2>/dev/null; rm -rf "$wt"
for try in 1 2 3 4 5; do git -C /repo worktree add -q --detach "$wt" HEAD 2>/dev/null && break; sleep 2; git -C /repo worktree prune; done
[ -d "$wt/src" ] || { echo "WORKTREE FAILED"; exit 9; }
demo=$(ls "$d"/demo.py "$d"/test_demo.py 2>/dev/null | head -1)
run_demo() { (cd "$wt" && PYTHONPATH="$wt/src:$wt" timeout 300 /venv/bin/python "$demo" > "$d/demo_$1.log" 2>&1; echo $?); }
echo "demo without change: exit $(run_demo clean)"
if ! git -C "$wt" apply --check "$d/patch.diff" 2>/dev/null; then echo "PATCH DOES NOT APPLY"; git -C /repo worktree remove --force "$wt"; exit 8; fi
git -C "$wt" apply "$d/patch.diff"
git -C "$wt" diff --stat | tail -3
echo "demo with change: exit $(run_demo seeded)"
if [ $# -gt 0 ]; then
  (cd "$wt" && PYTHONPATH="$wt/src:$wt" $LOCK timeout 2400 /venv/bin/python -m pytest -q -p no:cacheprovider -o log_cli=false "$@" 2>&1 | tail -3)
fi
cd /verif && VERIF_REPO="$wt" timeout 1500 ./check "$pid" > "$d/check_$pid.log" 2>&1; echo "check $pid exit $?"
grep -E "VIOLATION|KNOWN-FINDING|BROKEN" "$d/check_$pid.log" | cut -c1-300 | head -6
grep -E "^  -> " "$d/check_$pid.log" | cut -c1-400 | head -4
git -C /repo worktree remove --force "$wt"
