#!/usr/bin/env python3
"""Binary-safe replace in a /repo file, preserving its line endings.
usage: patch_repo.py <file> <<'EOF'  (stdin: python literal list of (old, new) pairs, written with \n)"""
import ast
import sys

path = sys.argv[1]
pairs = ast.literal_eval(sys.stdin.read())
data = open(path, 'rb').read()
crlf = b'\r\n' in data
for old, new in pairs:
    o, n = old.encode(), new.encode()
    if crlf:
        o, n = o.replace(b'\n', b'\r\n'), n.replace(b'\n', b'\r\n')
    if data.count(o) != 1:
        sys.exit(f'pattern occurs {data.count(o)} times: {old[:60]!r}')
    data = data.replace(o, n)
open(path, 'wb').write(data)
print('patched', path, 'CRLF' if crlf else 'LF')
