#!/bin/bash
# tools/apply_fix.sh <name>  : apply fixes/<name>.diff to /repo and commit it with fixes/<name>.msg
set -e
n="$1"
cd /repo
git apply --check "/verif/fixes/$n.diff" || { echo "DOES NOT APPLY: $n"; exit 1; }
git apply "/verif/fixes/$n.diff"
git add -A src tutorial
git commit -q -F "/verif/fixes/$n.msg"
echo "committed $n as $(git log -1 --format=%h)"
