#!/usr/bin/env python3
"""Rewrite MANIFEST.json from tools/claims.json (per-property text) + properties.jsonl."""
import json
from pathlib import Path

V = Path(__file__).resolve().parent.parent
props = [json.loads(l) for l in (V / 'properties.jsonl').read_text().splitlines() if l.strip()]
claims = json.loads((V / 'tools' / 'claims.json').read_text())
m = json.loads((V / 'MANIFEST.json').read_text())
checks, na = [], []
for p in props:
    pid = p['id']
    c = claims.get(pid)
    if c and c.get('claimed'):
        checks.append({
            'property_id': pid,
            'quick_cmd': f'./check {pid} --tier quick',
            'thorough_cmd': f'./check {pid} --tier thorough',
            'evidence_file': f'evidence/{pid}.json',
            'replay_cmd_template': f'./check {pid} --replay {{path}}',
            'engine': 'coq-proof+correspondence',
            'level_claimed': {'category': 'proof', 'text': c['text'], 'design_ref': c.get('design_ref', f'DESIGN.md section 4, {pid}')},
            'level_note': c['note'],
            'technique': c['technique'],
        })
    else:
        na.append({'property_id': pid, 'reason': (c or {}).get('reason', 'check not built yet (work in progress)')})
m['checks'] = checks
m['not_applicable'] = na
m['engines'][0]['serves_properties'] = [c['property_id'] for c in checks]
(V / 'MANIFEST.json').write_text(json.dumps(m, indent=1))
print('claimed:', [c['property_id'] for c in checks])
