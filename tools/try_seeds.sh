#!/bin/bash
# tools/try_seeds.sh <out file> <seed dir>... : evaluate several seeded changes one after the other (no related tests)
out="$1"; shift
for d in "$@"; do
  b=$(basename "$d"); pid=${b:0:3}
  echo "##### $d ($pid)" >> "$out"
  /verif/tools/try_seed.sh "$d" "$pid" 2>&1 | cut -c1-420 >> "$out"
done
echo "ALL DONE" >> "$out"
